// C15 — address encodings are bijective and error-detecting.
//
// Differential monitor: every generated string / destination is given to gocoin
// (btc.NewAddrFromString, NewAddrFromPkScript, NewAddrFromHash160, (*BtcAddr).String, OutScript,
// bech32.Encode/Decode/SegwitEncode/SegwitDecode, btc.Encodeb58/Decodeb58, DecodePrivateAddr,
// NewPrivateAddr/(*PrivateAddr).String) and to the independent model /verif/ref/refaddr.
// Oracles: (1) same accept/refuse decision and same output script; (2) encode(decode(s)) == s up
// to Bech32 case and decode(encode(x)) == x; (3) coding theory: <= 4 substituted characters in the
// data part of a valid Bech32(m) string never verify under the same checksum constant (asserted on
// both implementations; a failure of the model is BROKEN, not a violation).
// Workers run as child processes that journal the current case before touching gocoin.
package main

import (
	"bytes"
	"encoding/binary"
	"encoding/hex"
	"encoding/json"
	"fmt"
	"hash/fnv"
	"os"
	"path/filepath"
	"sort"
	"strconv"
	"strings"
	"sync"
	"sync/atomic"
	"time"

	"github.com/piotrnar/gocoin/lib/btc"
	"github.com/piotrnar/gocoin/lib/others/bech32"
	"verif/lib/vlib"
	"verif/ref/refaddr"
	"verif/ref/refhd"
)

// ---------------------------------------------------------------------------------------------
// child-side bookkeeping

type vio struct {
	Class   string                 `json:"class"`
	What    string                 `json:"what"`
	Witness map[string]interface{} `json:"witness"`
}

type result struct {
	Counts   map[string]int64    `json:"counts"`
	Vios     []vio               `json:"vios"`
	VioCount map[string]int64    `json:"vio_count"`
	Samples  []interface{}       `json:"samples"`
	Broken   []string            `json:"broken"`
	Distinct map[string][]uint64 `json:"-"`
}

var (
	res      = result{Counts: map[string]int64{}, VioCount: map[string]int64{}}
	distinct = map[string]map[uint64]struct{}{}
	jf       *os.File
	jbuf     []byte

	distinctCap = 1000000
)

func count(k string) { res.Counts[k]++ }

func dist(set string, s string) {
	h := fnv.New64a()
	h.Write([]byte(s))
	m := distinct[set]
	if m == nil {
		m = map[uint64]struct{}{}
		distinct[set] = m
	}
	if len(m) >= distinctCap { // memory cap for thorough runs: the reported count is then a lower bound
		return
	}
	m[h.Sum64()] = struct{}{}
}

func violation(class, what string, w map[string]interface{}) {
	res.VioCount[class]++
	if res.VioCount[class] <= 3 {
		res.Vios = append(res.Vios, vio{class, what, w})
	}
}

func broken(format string, a ...interface{}) {
	if len(res.Broken) < 10 {
		res.Broken = append(res.Broken, fmt.Sprintf(format, a...))
	}
}

// journal overwrites the one-record journal with the case about to be executed
func journal(fam, s string) {
	if jf == nil {
		return
	}
	jbuf = jbuf[:0]
	jbuf = append(jbuf, 0, 0, 0, 0)
	jbuf = append(jbuf, fam...)
	jbuf = append(jbuf, 0)
	jbuf = append(jbuf, s...)
	binary.LittleEndian.PutUint32(jbuf, uint32(len(jbuf)-4))
	jf.WriteAt(jbuf, 0)
}

func sample(v interface{}) {
	if len(res.Samples) < 4 {
		res.Samples = append(res.Samples, v)
	}
}

func q(s string) string { return strconv.QuoteToASCII(s) }

// ---------------------------------------------------------------------------------------------
// gocoin wrappers (panics recovered per call)

type gdec struct {
	ok       bool
	err      string
	panicMsg string // panic inside NewAddrFromString / String
	script   []byte // nil when OutScript panicked with its "no script for this version" message
	noScript string
	segwit   bool
	version  byte
	hash     [20]byte
	hrp      string
	witver   int
	prog     []byte
	fresh    string // re-encoding from the decoded fields only
}

func gDecode(s string) (g gdec) {
	var a *btc.BtcAddr
	func() {
		defer func() {
			if r := recover(); r != nil {
				g.panicMsg = fmt.Sprint(r)
			}
		}()
		var e error
		a, e = btc.NewAddrFromString(s)
		if e != nil {
			g.err = e.Error()
			a = nil
		} else if a == nil {
			g.err = "(nil address, nil error)"
		}
	}()
	if a == nil || g.panicMsg != "" {
		return
	}
	g.ok = true
	func() {
		defer func() {
			if r := recover(); r != nil {
				g.noScript = fmt.Sprint(r)
			}
		}()
		g.script = a.OutScript()
	}()
	holdAddr(a, s, g.script)
	func() {
		defer func() {
			if r := recover(); r != nil {
				g.panicMsg = "String(): " + fmt.Sprint(r)
			}
		}()
		if a.SegwitProg != nil {
			g.segwit = true
			g.hrp, g.witver, g.prog = a.SegwitProg.HRP, a.SegwitProg.Version, a.SegwitProg.Program
			g.fresh = (&btc.SegwitProg{HRP: g.hrp, Version: g.witver, Program: g.prog}).String()
		} else {
			g.version, g.hash = a.Version, a.Hash160
			g.fresh = btc.NewAddrFromHash160(a.Hash160[:], a.Version).String()
		}
	}()
	return
}

// A decoded address must keep denoting the same destination whatever is decoded afterwards (a send list is parsed
// first, the outputs are built later): the last decoded objects are kept and re-evaluated every 40 decodes.
type heldAddr struct {
	a      *btc.BtcAddr
	s      string
	script []byte
	str    string
}

var (
	held      []heldAddr
	heldSince int
)

func holdAddr(a *btc.BtcAddr, s string, script []byte) {
	if script == nil {
		return
	}
	str := ""
	func() {
		defer func() { recover() }()
		str = a.String()
	}()
	if len(held) >= 48 {
		held = held[1:]
	}
	held = append(held, heldAddr{a, s, append([]byte{}, script...), str})
	heldSince++
	if heldSince >= 40 {
		recheckHeld()
	}
}

func recheckHeld() {
	heldSince = 0
	for _, h := range held {
		var scr []byte
		str := ""
		func() {
			defer func() { recover() }()
			scr = h.a.OutScript()
			str = h.a.String()
		}()
		count("held_addresses_rechecked")
		if !bytes.Equal(scr, h.script) || str != h.str {
			violation("decoded-address-changes-later", "an address object decoded earlier denotes another script / string after other addresses have been decoded",
				map[string]interface{}{"string": q(h.s), "script_then": hex.EncodeToString(h.script), "script_now": hex.EncodeToString(scr), "string_then": q(h.str), "string_now": q(str)})
			held = nil
			return
		}
	}
}

func gFromScript(scr []byte, testnet bool) (s string, isNil bool, pm string) {
	defer func() {
		if r := recover(); r != nil {
			pm = fmt.Sprint(r)
		}
	}()
	a := btc.NewAddrFromPkScript(scr, testnet)
	if a == nil {
		return "", true, ""
	}
	// the address object itself is used to pay (change back to the script of an input): without going through the
	// string it has to give the script it was made from
	p2pk := (len(scr) == 67 && scr[0] == 0x41 && scr[66] == 0xac) || (len(scr) == 35 && scr[0] == 0x21 && scr[34] == 0xac)
	func() {
		if p2pk {
			return // a pay-to-pubkey script is shown as the address of its key: another script by design
		}
		defer func() { recover() }() // "no script for this version" panics are judged elsewhere
		if back := a.OutScript(); !bytes.Equal(back, scr) {
			violation("script-object-roundtrip/"+fmt.Sprintf("len%d", len(scr)), "NewAddrFromPkScript(script).OutScript() differs from the script",
				map[string]interface{}{"script": vlib.Hex(scr), "out_script": vlib.Hex(back), "address": a.String(), "testnet": testnet})
		}
		scriptObjectChecks.Add(1)
	}()
	return a.String(), false, ""
}

var scriptObjectChecks atomic.Int64

// ---------------------------------------------------------------------------------------------
// oracles

func kindName(k int) string {
	switch k {
	case refaddr.KindP2PKH:
		return "p2pkh"
	case refaddr.KindP2SH:
		return "p2sh"
	case refaddr.KindWitness:
		return "witness"
	case refaddr.KindB58Unknown:
		return "b58-unknown-version"
	}
	return "none"
}

// checkString: the central differential oracle for one address string.
func checkString(fam, s string) {
	journal("addr/"+fam, s)
	count("strings")
	count("strings/" + fam)
	d, reason := refaddr.DecodeAddress(s)
	g := gDecode(s)
	w := map[string]interface{}{"family": fam, "string": q(s), "string_hex": hex.EncodeToString([]byte(s)), "ref_reason": reason, "gocoin_err": g.err}
	if g.panicMsg != "" {
		w["panic"] = g.panicMsg
		violation("panic/NewAddrFromString/"+fam, "decoding an address string panics: "+g.panicMsg, w)
		return
	}
	refScript := []byte(nil)
	if d != nil {
		refScript = d.Script()
		w["ref_kind"] = kindName(d.Kind)
	}
	if g.ok && g.script == nil && !strings.HasPrefix(g.noScript, "Cannot create OutScript for address version") {
		w["panic"] = g.noScript
		violation("panic/OutScript/"+fam, "OutScript of a decoded address panics: "+g.noScript, w)
		return
	}
	switch {
	case refScript != nil && g.script == nil:
		count("disagree")
		violation("refuses-valid/"+kindName(d.Kind)+"/"+fam, "gocoin refuses / has no script for an address the model accepts", w)
	case refScript == nil && g.script != nil:
		count("disagree")
		r := reason
		if d != nil {
			r = kindName(d.Kind)
		}
		w["gocoin_script"] = hex.EncodeToString(g.script)
		violation("accepts-invalid/"+r+"/"+fam, "gocoin maps to a script a string the model refuses ("+r+")", w)
	case refScript != nil:
		count("accepted_both")
		count("accepted_both/" + kindName(d.Kind))
		dist("accepted", s)
		if !bytesEq(refScript, g.script) {
			w["gocoin_script"], w["ref_script"] = hex.EncodeToString(g.script), hex.EncodeToString(refScript)
			violation("script-mismatch/"+kindName(d.Kind)+"/"+fam, "decoded address yields a different output script", w)
			return
		}
		canon := d.String()
		if g.fresh != canon {
			w["gocoin_reencoded"], w["ref_reencoded"] = g.fresh, canon
			violation("reencode-mismatch/"+kindName(d.Kind)+"/"+fam, "encode(decode(s)) differs from the canonical string", w)
			return
		}
		if (d.Kind == refaddr.KindWitness && !strings.EqualFold(canon, s)) || (d.Kind != refaddr.KindWitness && canon != s) {
			broken("model: canonical form %q of accepted %q differs", canon, s)
		}
		// script -> address must give the canonical string again (versions with a network flag)
		tn, haveNet := false, true
		switch {
		case d.Kind == refaddr.KindWitness:
			tn = d.HRP == "tb"
		case d.Version == 0 || d.Version == 5:
		case d.Version == 111 || d.Version == 196:
			tn = true
		default:
			haveNet = false // 48: litecoin
		}
		if haveNet {
			back, isNil, pm := gFromScript(refScript, tn)
			if pm != "" || isNil || back != canon {
				w["from_script"], w["panic"] = back, pm
				violation("script-to-address-mismatch/"+kindName(d.Kind)+"/"+fam, "NewAddrFromPkScript(script).String() differs from the canonical address", w)
			}
		}
	default:
		count("refused_both")
		if d != nil { // well-formed Base58Check, unknown version: no script on either side
			count("b58_unknown_version_no_script")
			if g.ok && (g.version != d.Version || !bytesEq(g.hash[:], d.Hash) || g.fresh != s) {
				violation("b58-unknown-version-fields/"+fam, "unknown-version Base58 address decodes to other fields", w)
			}
		} else {
			count("refused_both/" + reason)
		}
	}
}

func bytesEq(a, b []byte) bool { return string(a) == string(b) }

// encode side: witness destination
func encSegwit(fam, hrp string, ver int, prog []byte) string {
	journal("enc-segwit/"+fam, fmt.Sprintf("%s %d %x", hrp, ver, prog))
	count("enc_segwit")
	refStr, reason := refaddr.SegwitEncode(hrp, ver, prog)
	if reason == "hrp-empty" {
		count("enc_segwit_empty_hrp_skipped") // API corner outside the property (no address has an empty hrp)
		return ""
	}
	w := map[string]interface{}{"family": fam, "hrp": hrp, "witver": ver, "program": hex.EncodeToString(prog), "ref": refStr, "ref_reason": reason}
	var gs string
	pm := ""
	func() {
		defer func() {
			if r := recover(); r != nil {
				pm = fmt.Sprint(r)
			}
		}()
		gs = bech32.SegwitEncode(hrp, ver, prog)
	}()
	if pm != "" {
		w["panic"] = pm
		violation("panic/SegwitEncode/"+fam, "bech32.SegwitEncode panics", w)
		return ""
	}
	if gs != refStr {
		w["gocoin"] = gs
		if refStr == "" {
			violation("encodes-invalid/"+reason+"/"+fam, "bech32.SegwitEncode encodes a destination that has no address", w)
		} else {
			violation("encode-mismatch/segwit/"+fam, "bech32.SegwitEncode differs from the model", w)
		}
		return ""
	}
	if hrp == "bc" || hrp == "tb" {
		if ver >= 0 && ver <= 16 && len(prog) >= 2 && len(prog) <= 40 {
			scr := refaddr.WitnessScript(ver, prog)
			back, isNil, pm := gFromScript(scr, hrp == "tb")
			if pm != "" || (refStr == "" && !isNil) || (refStr != "" && back != refStr) {
				w["from_script"], w["panic"] = back, pm
				violation("script-to-address-mismatch/witness/"+fam, "NewAddrFromPkScript on a witness program differs from the model", w)
			}
		}
	}
	return refStr
}

func encB58(fam string, ver byte, h []byte) string {
	journal("enc-b58/"+fam, fmt.Sprintf("%d %x", ver, h))
	count("enc_b58")
	refStr := refaddr.Base58CheckEncode(append([]byte{ver}, h...))
	var gs, pm string
	func() {
		defer func() {
			if r := recover(); r != nil {
				pm = fmt.Sprint(r)
			}
		}()
		gs = btc.NewAddrFromHash160(h, ver).String()
	}()
	if pm != "" || gs != refStr {
		violation("encode-mismatch/base58/"+fam, "NewAddrFromHash160(...).String() differs from Base58Check of the model",
			map[string]interface{}{"version": ver, "hash": hex.EncodeToString(h), "gocoin": gs, "ref": refStr, "panic": pm})
		return ""
	}
	return refStr
}

// raw bech32 layer
func rawBech32(fam, s string) {
	journal("bech32/"+fam, s)
	count("bech32_decode")
	count("bech32_decode/" + fam)
	hrp, data, variant, reason := refaddr.Bech32Decode(s)
	var gh string
	var gd []byte
	var gm bool
	pm := ""
	func() {
		defer func() {
			if r := recover(); r != nil {
				pm = fmt.Sprint(r)
			}
		}()
		gh, gd, gm = bech32.Decode(s)
	}()
	w := map[string]interface{}{"family": fam, "string": q(s), "string_hex": hex.EncodeToString([]byte(s)), "ref_reason": reason}
	if pm != "" {
		w["panic"] = pm
		violation("panic/bech32.Decode/"+fam, "bech32.Decode panics", w)
		return
	}
	gok := gh != ""
	switch {
	case reason == "" && !gok:
		violation("bech32-refuses-valid/"+fam, "bech32.Decode refuses a valid string", w)
	case reason != "" && gok:
		violation("bech32-accepts-invalid/"+reason+"/"+fam, "bech32.Decode accepts an invalid string ("+reason+")", w)
	case reason == "":
		count("bech32_accepted_both")
		dist("bech32_accepted", s)
		if gh != hrp || !bytesEq(gd, data) || gm != (variant == refaddr.Bech32m) {
			w["gocoin_hrp"], w["gocoin_data"], w["gocoin_m"] = gh, hex.EncodeToString(gd), gm
			violation("bech32-decode-mismatch/"+fam, "bech32.Decode returns other hrp/data/variant than the model", w)
			return
		}
		re := bech32.Encode(gh, gd, gm)
		if re != strings.ToLower(s) {
			w["reencoded"] = re
			violation("bech32-reencode-mismatch/"+fam, "bech32.Encode(Decode(s)) != lower(s)", w)
		}
	}
}

func rawBech32Encode(fam, hrp string, data []byte, m bool) {
	journal("bech32enc/"+fam, fmt.Sprintf("%q %x %v", hrp, data, m))
	count("bech32_encode")
	v := refaddr.Bech32
	if m {
		v = refaddr.Bech32m
	}
	refStr, reason := refaddr.Bech32Encode(hrp, data, v)
	if reason == "hrp-empty" {
		count("bech32_encode_empty_hrp_skipped") // API corner outside the property (no address has an empty hrp)
		return
	}
	var gs, pm string
	func() {
		defer func() {
			if r := recover(); r != nil {
				pm = fmt.Sprint(r)
			}
		}()
		gs = bech32.Encode(hrp, data, m)
	}()
	if pm != "" || gs != refStr {
		cls := "bech32-encode-mismatch/" + fam
		if refStr == "" && pm == "" {
			cls = "bech32-encodes-invalid/" + reason + "/" + fam
		}
		violation(cls, "bech32.Encode differs from the model", map[string]interface{}{"hrp": q(hrp), "data": hex.EncodeToString(data), "bech32m": m, "gocoin": gs, "ref": refStr, "ref_reason": reason, "panic": pm})
	}
}

// SegwitDecode API with an explicit expected hrp (also hrps other than bc/tb)
func segwitDecodeAPI(fam, hrp, s string) {
	journal("segwitdecode/"+fam, hrp+" "+s)
	count("segwit_decode_api")
	ver, prog, reason := refaddr.SegwitDecode(hrp, s)
	var gv int
	var gp []byte
	var ge error
	pm := ""
	func() {
		defer func() {
			if r := recover(); r != nil {
				pm = fmt.Sprint(r)
			}
		}()
		gv, gp, ge = bech32.SegwitDecode(hrp, s)
	}()
	w := map[string]interface{}{"family": fam, "hrp": hrp, "string": q(s), "ref_reason": reason}
	if pm != "" {
		w["panic"] = pm
		violation("panic/SegwitDecode/"+fam, "bech32.SegwitDecode panics", w)
		return
	}
	gok := gp != nil && ge == nil
	if (gp != nil) != (ge == nil) {
		w["gocoin_prog"], w["gocoin_err"] = hex.EncodeToString(gp), fmt.Sprint(ge)
		violation("segwitdecode-inconsistent-result/"+fam, "bech32.SegwitDecode returns a program together with an error (or neither)", w)
		return
	}
	switch {
	case reason == "" && !gok:
		w["gocoin_err"] = fmt.Sprint(ge)
		violation("segwitdecode-refuses-valid/"+fam, "bech32.SegwitDecode refuses a valid address", w)
	case reason != "" && gok:
		violation("segwitdecode-accepts-invalid/"+reason+"/"+fam, "bech32.SegwitDecode accepts an invalid address ("+reason+")", w)
	case reason == "":
		if gv != ver || !bytesEq(gp, prog) {
			violation("segwitdecode-mismatch/"+fam, "bech32.SegwitDecode returns other version/program", w)
		}
	}
}

// coding-theory oracle
func theory(r *vlib.Rand, s string, upper bool) {
	l := strings.ToLower(s)
	sep := strings.LastIndexByte(l, '1')
	_, _, v0, reason := refaddr.Bech32Decode(l)
	if reason != "" || sep < 0 {
		broken("theory: base string %q invalid", s)
		return
	}
	k := 1 + r.Intn(4)
	b := []byte(l)
	npos := len(b) - sep - 1
	pos := map[int]bool{}
	var order []int
	for len(pos) < k {
		p := sep + 1 + r.Intn(npos)
		if !pos[p] {
			pos[p] = true
			order = append(order, p)
		}
	}
	for _, p := range order {
		for {
			c := refaddr.Bech32Charset[r.Intn(32)]
			if c != b[p] {
				b[p] = c
				break
			}
		}
	}
	m := string(b)
	if upper {
		m = strings.ToUpper(m)
	}
	journal("theory", m)
	count("theory_cases")
	count(fmt.Sprintf("theory_cases/k=%d", k))
	dist("theory", m)
	if _, _, v, rs := refaddr.Bech32Decode(m); rs == "" && v == v0 {
		broken("theory: the MODEL verifies %q (%d substitutions of %q)", m, k, s)
		return
	}
	var gh string
	var gm bool
	func() {
		defer func() { recover() }()
		gh, _, gm = bech32.Decode(m)
	}()
	w := map[string]interface{}{"original": s, "mutated": m, "substitutions": k}
	if gh != "" && gm == (v0 == refaddr.Bech32m) {
		violation("theory/bech32.Decode-verifies-<=4-substitutions", "bech32.Decode verifies a valid string with <=4 substituted characters under the same checksum constant", w)
	}
	if !pos[sep+1] { // witness version character untouched => required variant unchanged
		count("theory_cases_addr_level")
		if d, _ := refaddr.DecodeAddress(m); d != nil && d.Script() != nil {
			broken("theory: the MODEL accepts address %q (%d substitutions of %q)", m, k, s)
		}
		g := gDecode(m)
		if g.ok && g.script != nil {
			w["script"] = hex.EncodeToString(g.script)
			violation("theory/NewAddrFromString-accepts-<=4-substitutions", "NewAddrFromString accepts a valid segwit address with <=4 substituted characters", w)
		}
	}
}

// ---------------------------------------------------------------------------------------------
// WIF

func wifString(fam, s string) {
	journal("wif/"+fam, s)
	count("wif_strings")
	count("wif_strings/" + fam)
	ver, key, compr, reason := refaddr.WIFDecode(s)
	var pa *btc.PrivateAddr
	var ge error
	pm := ""
	gstr := ""
	gcompr := false
	func() {
		defer func() {
			if r := recover(); r != nil {
				pm = fmt.Sprint(r)
			}
		}()
		pa, ge = btc.DecodePrivateAddr(s)
		if pa != nil && ge == nil {
			gcompr = pa.BtcAddr.IsCompressed()
			gstr = pa.String()
		}
	}()
	w := map[string]interface{}{"family": fam, "string": q(s), "ref_reason": reason}
	if pm != "" {
		w["panic"] = pm
		if reason == "wif-key-out-of-range" && strings.Contains(pm, "PublicFromPrivate") {
			count("wif_out_of_range_key_refused_by_panic")
			return
		}
		violation("panic/DecodePrivateAddr/"+fam, "DecodePrivateAddr panics: "+pm, w)
		return
	}
	gok := pa != nil && ge == nil
	switch {
	case reason == "" && !gok:
		w["gocoin_err"] = fmt.Sprint(ge)
		violation("wif-refuses-valid/"+fam, "DecodePrivateAddr refuses a valid WIF string", w)
	case reason != "" && gok:
		if reason == "wif-key-out-of-range" {
			// not named by the property text (the codec is still bijective on the bytes): observation only
			count("wif_out_of_range_key_accepted(observation)")
			return
		}
		w["gocoin_key"], w["gocoin_compressed"], w["gocoin_reencoded"] = hex.EncodeToString(pa.Key), gcompr, gstr
		violation("wif-accepts-invalid/"+reason+"/"+fam, "DecodePrivateAddr accepts a string the model refuses ("+reason+")", w)
	case reason == "":
		count("wif_accepted_both")
		dist("wif_accepted", s)
		if pa.Version != ver || !bytesEq(pa.Key, key) || gcompr != compr {
			w["gocoin_key"], w["gocoin_version"], w["gocoin_compressed"] = hex.EncodeToString(pa.Key), pa.Version, gcompr
			violation("wif-decode-mismatch/"+fam, "DecodePrivateAddr returns other version/key/compression than the model", w)
			return
		}
		if gstr != s {
			w["gocoin_reencoded"] = gstr
			violation("wif-reencode-mismatch/"+fam, "PrivateAddr.String() of a decoded WIF differs from the input", w)
		}
	default:
		count("wif_refused_both")
	}
}

func wifEncode(fam string, ver byte, key []byte, compr, checkPub bool) string {
	journal("wifenc/"+fam, fmt.Sprintf("%d %x %v", ver, key, compr))
	count("wif_encode")
	refStr := refaddr.WIFEncode(ver, key, compr)
	var gs, pm string
	var pa *btc.PrivateAddr
	func() {
		defer func() {
			if r := recover(); r != nil {
				pm = fmt.Sprint(r)
			}
		}()
		pa = btc.NewPrivateAddr(append([]byte{}, key...), ver, compr)
		gs = pa.String()
	}()
	w := map[string]interface{}{"family": fam, "version": ver, "key": hex.EncodeToString(key), "compressed": compr, "gocoin": gs, "ref": refStr, "panic": pm}
	if pm != "" || gs != refStr {
		violation("wif-encode-mismatch/"+fam, "NewPrivateAddr(...).String() differs from the model's WIF", w)
		return ""
	}
	if checkPub {
		count("wif_encode_pubkey_checked")
		p, err := refhd.PubFromPriv(key)
		if err != nil {
			broken("wifEncode called with invalid key")
			return refStr
		}
		pub := p.SerializeCompressed()
		if !compr {
			pub = p.SerializeUncompressed()
		}
		if !bytesEq(pa.BtcAddr.Pubkey, pub) {
			// which public key belongs to a private key is C14's subject (known root cause there:
			// pubkey-parity/*); C15 judges the encoding of whatever key gocoin attached
			count("wif_pubkey_differs_from_model(observation, C14 subject)")
		}
		want := refaddr.Base58CheckEncode(append([]byte{ver - 0x80}, refaddr.Hash160(pa.BtcAddr.Pubkey)...))
		if pa.BtcAddr.String() != want {
			w["gocoin_pubkey"], w["gocoin_addr"], w["ref_addr"] = hex.EncodeToString(pa.BtcAddr.Pubkey), pa.BtcAddr.String(), want
			violation("wif-address-mismatch/"+fam, "address attached to a private key is not the P2PKH encoding of the attached public key", w)
		}
	}
	return refStr
}

// ---------------------------------------------------------------------------------------------
// raw base58

func rawB58(fam string, b []byte) {
	journal("b58enc/"+fam, hex.EncodeToString(b))
	count("b58_encode")
	want := refaddr.Base58Encode(b)
	var gs, pm string
	var back []byte
	func() {
		defer func() {
			if r := recover(); r != nil {
				pm = fmt.Sprint(r)
			}
		}()
		gs = btc.Encodeb58(b)
		back = btc.Decodeb58(gs)
	}()
	if pm != "" || gs != want || !bytesEq(back, b) {
		violation("b58-codec-mismatch/"+fam, "Encodeb58/Decodeb58 differ from the model", map[string]interface{}{"bytes": hex.EncodeToString(b), "gocoin": gs, "ref": want, "decoded_back": hex.EncodeToString(back), "panic": pm})
	}
}

func rawB58Decode(fam, s string) {
	journal("b58dec/"+fam, s)
	count("b58_decode")
	want, reason := refaddr.Base58Decode(s)
	var got []byte
	pm := ""
	func() {
		defer func() {
			if r := recover(); r != nil {
				pm = fmt.Sprint(r)
			}
		}()
		got = btc.Decodeb58(s)
	}()
	w := map[string]interface{}{"string": q(s), "gocoin": hex.EncodeToString(got), "ref": hex.EncodeToString(want), "ref_reason": reason, "panic": pm}
	switch {
	case pm != "":
		violation("panic/Decodeb58/"+fam, "Decodeb58 panics", w)
	case reason != "" && got != nil:
		violation("b58-accepts-invalid/"+reason+"/"+fam, "Decodeb58 decodes a string with characters outside the alphabet", w)
	case reason == "" && !bytesEq(got, want): // nil and empty are the same for ""
		violation("b58-decode-mismatch/"+fam, "Decodeb58 differs from the model", w)
	}
}

// ---------------------------------------------------------------------------------------------
// scripts

func scriptCase(fam string, scr []byte, testnet bool) {
	journal("script/"+fam, hex.EncodeToString(scr))
	count("scripts")
	if refaddr.IsP2PKShaped(scr) {
		count("scripts_p2pk_shaped_skipped")
		return
	}
	d := refaddr.DestFromScript(scr, testnet)
	s, isNil, pm := gFromScript(scr, testnet)
	w := map[string]interface{}{"family": fam, "script": hex.EncodeToString(scr), "testnet": testnet, "gocoin": s, "panic": pm}
	switch {
	case pm != "":
		violation("panic/NewAddrFromPkScript/"+fam, "NewAddrFromPkScript panics", w)
	case d == nil && !isNil:
		violation("script-has-address/"+fam, "NewAddrFromPkScript gives an address to a script that is no address template", w)
	case d != nil && isNil:
		w["ref"] = d.String()
		violation("script-no-address/"+kindName(d.Kind)+"/"+fam, "NewAddrFromPkScript gives no address for a standard destination", w)
	case d != nil:
		count("scripts_with_address")
		if s != d.String() {
			w["ref"] = d.String()
			violation("script-to-address-mismatch/"+kindName(d.Kind)+"/"+fam, "NewAddrFromPkScript(script).String() differs from the model", w)
		}
	}
}

// ---------------------------------------------------------------------------------------------
// generators

const b58a = refaddr.B58Alphabet

func flipCase(c byte) byte {
	if c >= 'a' && c <= 'z' {
		return c - 32
	}
	if c >= 'A' && c <= 'Z' {
		return c + 32
	}
	return c
}

// mutate returns (family, mutated string)
func mutate(r *vlib.Rand, s string, seg bool) (string, string) {
	alphabet := b58a
	if seg {
		alphabet = refaddr.Bech32Charset
		if s == strings.ToUpper(s) {
			alphabet = strings.ToUpper(alphabet)
		}
	}
	b := []byte(s)
	pick := func() byte { return alphabet[r.Intn(len(alphabet))] }
	if len(b) < 2 {
		return "tiny", s + string(pick())
	}
	switch r.Intn(16) {
	case 0, 1, 2: // 1..4 substitutions inside the alphabet
		k := 1 + r.Intn(4)
		for i := 0; i < k; i++ {
			p := r.Intn(len(b))
			b[p] = pick()
		}
		return fmt.Sprintf("sub%d-alphabet", k), string(b)
	case 3: // substitutions with arbitrary bytes
		k := 1 + r.Intn(4)
		for i := 0; i < k; i++ {
			b[r.Intn(len(b))] = byte(r.Intn(256))
		}
		return "sub-anybyte", string(b)
	case 4: // visually similar / excluded characters
		conf := "0OIl1bi o"
		b[r.Intn(len(b))] = conf[r.Intn(len(conf))]
		return "sub-confusable", string(b)
	case 5: // insertions
		k := 1 + r.Intn(2)
		for i := 0; i < k; i++ {
			p := r.Intn(len(b) + 1)
			c := pick()
			if r.Intn(4) == 0 {
				c = byte(r.Intn(256))
			}
			b = append(b[:p], append([]byte{c}, b[p:]...)...)
		}
		return "insert", string(b)
	case 6: // deletions
		k := 1 + r.Intn(2)
		for i := 0; i < k && len(b) > 0; i++ {
			p := r.Intn(len(b))
			b = append(b[:p], b[p+1:]...)
		}
		return "delete", string(b)
	case 7: // transposition
		p := r.Intn(len(b) - 1)
		b[p], b[p+1] = b[p+1], b[p]
		return "transpose", string(b)
	case 8: // case: all
		for i := range b {
			b[i] = flipCase(b[i])
		}
		return "case-all", string(b)
	case 9: // case: random subset
		for i := range b {
			if r.Intn(3) == 0 {
				b[i] = flipCase(b[i])
			}
		}
		return "case-mixed", string(b)
	case 10: // case: one letter
		for t := 0; t < 20; t++ {
			p := r.Intn(len(b))
			if flipCase(b[p]) != b[p] {
				b[p] = flipCase(b[p])
				break
			}
		}
		return "case-one", string(b)
	case 11: // truncation
		return "truncate", s[:r.Intn(len(s))]
	case 12: // white space / control around
		pads := []string{" ", "\n", "\t", "\r\n", "\x00", "\xc2\xa0"}
		p := pads[r.Intn(len(pads))]
		if r.Bool() {
			return "whitespace", p + s
		}
		return "whitespace", s + p
	case 13: // extension
		switch r.Intn(3) {
		case 0:
			return "extend", s + s
		case 1:
			return "extend", s + string(pick())
		default:
			return "extend", string(pick()) + s
		}
	case 14: // leading '1' / 'q' games (Base58 leading zero, bech32 zero symbol)
		if seg {
			p := strings.LastIndexByte(strings.ToLower(s), '1') + 2
			if p > len(s) {
				p = len(s)
			}
			z := byte('q')
			if s == strings.ToUpper(s) {
				z = 'Q'
			}
			return "zero-symbol-insert", s[:p] + string(z) + s[p:]
		}
		if r.Bool() {
			return "leading-one-add", "1" + s
		}
		return "leading-one-drop", strings.TrimPrefix(s, "1")
	default: // high bit set on one char
		p := r.Intn(len(b))
		b[p] |= 0x80
		return "highbit", string(b)
	}
}

func randProg(r *vlib.Rand, n int) []byte {
	p := r.Bytes(n)
	switch r.Intn(8) {
	case 0:
		for i := range p {
			p[i] = 0
		}
	case 1:
		for i := range p {
			p[i] = 0xff
		}
	case 2:
		p[0] = 0
	case 3:
		p[n-1] = 0
	}
	return p
}

// constructed segwit strings with a VALID checksum that break exactly one rule
func craftedSegwit(r *vlib.Rand) (string, string) {
	hrp := refaddr.SegwitHRPs[r.Intn(2)]
	ver := r.Intn(17)
	plen := 2 + r.Intn(39)
	if ver == 0 {
		plen = []int{20, 32}[r.Intn(2)]
	}
	prog := randProg(r, plen)
	d5, _ := refaddr.ConvertBits(prog, 8, 5, true)
	right := refaddr.Bech32m
	wrong := refaddr.Bech32
	if ver == 0 {
		right, wrong = wrong, right
	}
	data := func(v int, d []byte) []byte { return append([]byte{byte(v)}, d...) }
	switch r.Intn(12) {
	case 0:
		return "crafted-wrong-variant", refaddr.RawBech32(hrp, data(ver, d5), wrong)
	case 1: // non-zero padding bits
		padBits := (5 - (plen*8)%5) % 5
		if padBits == 0 {
			return "crafted-valid", refaddr.RawBech32(hrp, data(ver, d5), right)
		}
		d := append([]byte{}, d5...)
		d[len(d)-1] |= byte(1 + r.Intn(1<<uint(padBits)-1))
		return "crafted-padding-nonzero", refaddr.RawBech32(hrp, data(ver, d), right)
	case 2: // a whole extra zero group (and sometimes two)
		d := append(append([]byte{}, d5...), 0)
		if r.Intn(3) == 0 {
			d = append(d, 0)
		}
		return "crafted-padding-extra-group", refaddr.RawBech32(hrp, data(ver, d), right)
	case 3:
		v := 17 + r.Intn(15)
		return "crafted-witver>16", refaddr.RawBech32(hrp, data(v, d5), refaddr.Bech32m)
	case 4: // program length out of range, valid checksum (may exceed 90 chars)
		l := []int{0, 1, 41, 42, 45, 50, 52, 60}[r.Intn(8)]
		d, _ := refaddr.ConvertBits(r.Bytes(l), 8, 5, true)
		v := 1 + r.Intn(16)
		return "crafted-program-length", refaddr.RawBech32(hrp, data(v, d), refaddr.Bech32m)
	case 5: // v0 with a length other than 20/32
		l := 2 + r.Intn(39)
		d, _ := refaddr.ConvertBits(r.Bytes(l), 8, 5, true)
		return "crafted-v0-length", refaddr.RawBech32(hrp, data(0, d), refaddr.Bech32)
	case 6: // other hrp, otherwise valid
		h := []string{"bcrt", "ltc", "tc", "b", "t", "bc1", "tb1", "bcc", "xbc", "lnbc", "bb"}[r.Intn(11)]
		return "crafted-other-hrp", refaddr.RawBech32(h, data(ver, d5), right)
	case 7: // empty data / version only
		if r.Bool() {
			return "crafted-empty-data", refaddr.RawBech32(hrp, nil, []refaddr.Variant{refaddr.Bech32, refaddr.Bech32m}[r.Intn(2)])
		}
		return "crafted-version-only", refaddr.RawBech32(hrp, []byte{byte(ver)}, right)
	case 8: // hrp upper + data lower (mixed case with otherwise valid checksum)
		s := refaddr.RawBech32(hrp, data(ver, d5), right)
		return "crafted-mixed-case-hrp", strings.ToUpper(s[:2]) + s[2:]
	case 9: // all upper: valid
		return "crafted-valid-upper", strings.ToUpper(refaddr.RawBech32(hrp, data(ver, d5), right))
	case 10: // checksum of the other hrp (network confusion)
		other := "tb"
		if hrp == "tb" {
			other = "bc"
		}
		s := refaddr.RawBech32(other, data(ver, d5), right)
		return "crafted-checksum-of-other-hrp", hrp + s[2:]
	default:
		return "crafted-valid", refaddr.RawBech32(hrp, data(ver, d5), right)
	}
}

func craftedB58(r *vlib.Rand) (string, string) {
	vers := []byte{0, 5, 111, 196, 48, 50}
	ver := vers[r.Intn(len(vers))]
	if r.Intn(3) == 0 {
		ver = byte(r.Intn(256))
	}
	h := r.Bytes(20)
	if r.Intn(6) == 0 {
		h[0], h[1] = 0, 0
	}
	switch r.Intn(8) {
	case 0: // payload length wrong, checksum valid
		l := []int{0, 1, 19, 21, 32, 33, 40}[r.Intn(7)]
		return "crafted-payload-length", refaddr.Base58CheckEncode(append([]byte{ver}, r.Bytes(l)...))
	case 1: // one checksum bit wrong
		raw, _ := refaddr.Base58Decode(refaddr.Base58CheckEncode(append([]byte{ver}, h...)))
		raw[21+r.Intn(4)] ^= 1 << uint(r.Intn(8))
		return "crafted-checksum-bit", refaddr.Base58Encode(raw)
	case 2: // one payload bit wrong
		raw, _ := refaddr.Base58Decode(refaddr.Base58CheckEncode(append([]byte{ver}, h...)))
		raw[r.Intn(21)] ^= 1 << uint(r.Intn(8))
		return "crafted-payload-bit", refaddr.Base58Encode(raw)
	case 3: // single SHA256 instead of double
		pl := append([]byte{ver}, h...)
		return "crafted-single-sha", refaddr.Base58Encode(append(pl, refhd.Sha256(pl)[:4]...))
	case 4: // no version byte: 20-byte hash + checksum
		return "crafted-no-version", refaddr.Base58CheckEncode(h)
	case 5: // version 0 with leading zero hash bytes (many leading '1')
		z := make([]byte, 20)
		copy(z[r.Intn(20):], r.Bytes(20))
		return "crafted-leading-zeros", refaddr.Base58CheckEncode(append([]byte{0}, z...))
	default:
		return "crafted-valid", refaddr.Base58CheckEncode(append([]byte{ver}, h...))
	}
}

func randomString(r *vlib.Rand) (string, string) {
	switch r.Intn(8) {
	case 0:
		return "random-bytes", string(r.Bytes(r.Intn(50)))
	case 1:
		n := r.Intn(6)
		return "random-tiny", string(r.Bytes(n))
	case 2:
		n := 20 + r.Intn(20)
		b := make([]byte, n)
		for i := range b {
			b[i] = b58a[r.Intn(58)]
		}
		return "random-base58", string(b)
	case 3, 4:
		n := r.Intn(75)
		b := make([]byte, n)
		for i := range b {
			b[i] = refaddr.Bech32Charset[r.Intn(32)]
		}
		pre := []string{"bc1", "tb1", "BC1", "TB1", "bC1", "bc1q", "bc1p", "tb1q"}[r.Intn(8)]
		s := pre + string(b)
		if pre == "BC1" || pre == "TB1" {
			s = strings.ToUpper(s)
		}
		return "random-bech32-charset", s
	case 5:
		n := r.Intn(40)
		b := make([]byte, n)
		for i := range b {
			b[i] = byte(33 + r.Intn(94))
		}
		return "random-printable", string(b)
	case 6:
		return "random-ones", strings.Repeat("1", r.Intn(40))
	default:
		return "random-prefix-only", []string{"", "b", "bc", "bc1", "tb1", "bc11", "1", "3", "bc1q", "BC1", "bc1\x00", "   "}[r.Intn(12)]
	}
}

func validSegwit(r *vlib.Rand) string {
	hrp := refaddr.SegwitHRPs[r.Intn(2)]
	ver := r.Intn(17)
	plen := 2 + r.Intn(39)
	switch r.Intn(4) {
	case 0:
		ver, plen = 0, 20
	case 1:
		ver, plen = 0, 32
	case 2:
		ver, plen = 1, 32
	}
	if ver == 0 && plen != 20 && plen != 32 {
		plen = 20
	}
	s, _ := refaddr.SegwitEncode(hrp, ver, randProg(r, plen))
	if r.Intn(4) == 0 {
		s = strings.ToUpper(s)
	}
	return s
}

func validB58(r *vlib.Rand) string {
	vers := []byte{0, 5, 111, 196, 48}
	h := r.Bytes(20)
	if r.Intn(8) == 0 {
		h[0] = 0
	}
	return refaddr.Base58CheckEncode(append([]byte{vers[r.Intn(len(vers))]}, h...))
}

func randKey(r *vlib.Rand) []byte {
	k := r.Bytes(32)
	switch r.Intn(10) {
	case 0:
		for i := 0; i < 1+r.Intn(8); i++ {
			k[i] = 0
		}
	case 1:
		for i := 0; i < 31; i++ {
			k[i] = 0
		}
		if k[31] == 0 {
			k[31] = 1
		}
	case 2: // n - small
		x := refaddr.CurveN.Bytes()
		copy(k, x)
		k[31] -= byte(1 + r.Intn(10))
	}
	if !refaddr.ValidPrivKey(k) {
		k[0] = 0x7f
	}
	return k
}

// ---------------------------------------------------------------------------------------------

func child(args []string) {
	shard, _ := strconv.Atoi(args[0])
	nshards, _ := strconv.Atoi(args[1])
	seed, _ := strconv.ParseUint(args[2], 10, 64)
	scale, _ := strconv.Atoi(args[3]) // cases = scale * per-family base
	outfile, jpath := args[4], args[5]
	if scale > 100 {
		distinctCap = 100000
	}
	var err error
	jf, err = os.Create(jpath)
	if err != nil {
		fmt.Println("cannot create journal:", err)
		os.Exit(4)
	}
	root := vlib.NewRand(seed).Fork(fmt.Sprintf("C15/shard%d", shard))
	mine := func(i int) bool { return i%nshards == shard }

	// (A) exhaustive versions x lengths x hrps (incl. out-of-range lengths/versions), random bytes
	r := root.Fork("enc-segwit")
	idx := 0
	reps := scale
	for _, hrp := range []string{"bc", "tb"} {
		for ver := -1; ver <= 18; ver++ {
			for l := 0; l <= 43; l++ {
				idx++
				if !mine(idx) {
					continue
				}
				for rep := 0; rep < reps; rep++ {
					s := encSegwit("exhaustive", hrp, ver, randProg2(r, l))
					if s != "" {
						dist("dest", s)
						checkString("enc-segwit", s)
						checkString("enc-segwit-upper", strings.ToUpper(s))
						if rep == 0 {
							sample(map[string]interface{}{"hrp": hrp, "witver": ver, "len": l, "address": s})
						}
					}
				}
			}
		}
	}
	// other hrps through the package API
	for i := 0; i < 40*scale; i++ {
		hrp := []string{"ltc", "bcrt", "tltc", "x", "BC", "b c", "bc\x7f", ""}[r.Intn(8)]
		encSegwit("other-hrp", hrp, r.Intn(17), randProg(r, []int{20, 32}[r.Intn(2)]))
	}

	// (B) all 256 Base58 version bytes
	r = root.Fork("enc-b58")
	for v := 0; v < 256; v++ {
		if !mine(v) {
			continue
		}
		for rep := 0; rep < 6*scale; rep++ {
			h := r.Bytes(20)
			if rep%5 == 4 {
				h[0], h[1], h[2] = 0, 0, 0
			}
			if s := encB58("all-versions", byte(v), h); s != "" {
				dist("dest", s)
				checkString("enc-base58", s)
			}
		}
	}

	// (C) mutations of valid addresses, crafted strings, random strings
	r = root.Fork("mutations")
	for i := 0; i < 5200*scale; i++ {
		seg := r.Intn(5) < 3
		var s string
		if seg {
			s = validSegwit(r)
		} else {
			s = validB58(r)
		}
		fam, m := mutate(r, s, seg)
		if seg {
			fam = "segwit/" + fam
		} else {
			fam = "base58/" + fam
		}
		dist("nontrivial", m)
		checkString("mut/"+fam, m)
		if r.Intn(3) == 0 { // second-order mutation
			fam2, m2 := mutate(r, m, seg)
			if m2 != "" {
				dist("nontrivial", m2)
				checkString("mut2/"+strings.SplitN(fam, "/", 2)[0]+"/"+fam2, m2)
			}
		}
	}
	r = root.Fork("crafted")
	for i := 0; i < 1400*scale; i++ {
		fam, s := craftedSegwit(r)
		dist("nontrivial", s)
		checkString(fam, s)
		if i%4 == 0 {
			rawBech32(fam, s)
			segwitDecodeAPI(fam, []string{"bc", "tb", "ltc", "bcrt"}[r.Intn(4)], s)
		}
		fam, s = craftedB58(r)
		dist("nontrivial", s)
		checkString("b58-"+fam, s)
	}
	r = root.Fork("random")
	for i := 0; i < 1200*scale; i++ {
		fam, s := randomString(r)
		checkString(fam, s)
		if i%3 == 0 {
			rawBech32(fam, s)
			rawB58Decode(fam, s)
			wifString(fam, s)
		}
	}

	// (D) raw bech32 layer: BIP vectors mutated, random hrp/data, encode
	r = root.Fork("bech32")
	for i := 0; i < 700*scale; i++ {
		hl := 1 + r.Intn(12)
		if r.Intn(20) == 0 {
			hl = 70 + r.Intn(20)
		}
		hb := make([]byte, hl)
		for j := range hb {
			hb[j] = byte(33 + r.Intn(94))
			if r.Intn(40) == 0 {
				hb[j] = byte(r.Intn(256))
			}
			if hb[j] >= 'A' && hb[j] <= 'Z' && r.Intn(8) != 0 {
				hb[j] += 32
			}
		}
		dl := r.Intn(60)
		if r.Intn(10) == 0 {
			dl = 83 - hl + r.Intn(4) - 2 // around the 90 limit
			if dl < 0 {
				dl = 0
			}
		}
		d := make([]byte, dl)
		for j := range d {
			d[j] = byte(r.Intn(32))
			if r.Intn(300) == 0 {
				d[j] = byte(32 + r.Intn(224))
			}
		}
		m := r.Bool()
		rawBech32Encode("random", string(hb), d, m)
		v := refaddr.Bech32
		if m {
			v = refaddr.Bech32m
		}
		if s, reason := refaddr.Bech32Encode(string(hb), d, v); reason == "" {
			dist("nontrivial", s)
			rawBech32("valid-random-hrp", s)
			rawBech32("valid-random-hrp-upper", strings.ToUpper(s))
			fam, mu := mutate(r, s, true)
			rawBech32("mut/"+fam, mu)
		} else {
			// same content with a valid checksum but broken rule (length, chars) straight to the decoder
			rawBech32("invalid-"+reason, refaddr.RawBech32(string(hb), maskData(d), v))
		}
	}

	// (E) coding theory
	r = root.Fork("theory")
	for i := 0; i < 2500*scale; i++ {
		theory(r, validSegwit(r), r.Intn(5) == 0)
	}

	// (F) WIF
	r = root.Fork("wif")
	for i := 0; i < 900*scale; i++ {
		ver := []byte{0x80, 0xef, 0xb0}[r.Intn(3)]
		if r.Intn(10) == 0 {
			ver = byte(r.Intn(256))
		}
		key := randKey(r)
		compr := r.Bool()
		s := wifEncode("valid", ver, key, compr, i%12 == 0)
		if s == "" {
			continue
		}
		dist("nontrivial", s)
		wifString("valid", s)
		fam, m := mutate(r, s, false)
		dist("nontrivial", m)
		wifString("mut/"+fam, m)
		// crafted: valid checksum, one rule broken
		pl := append([]byte{ver}, key...)
		switch r.Intn(6) {
		case 0:
			flag := byte(r.Intn(256))
			if flag == 1 {
				flag = 0
			}
			wifString("crafted-compression-flag", refaddr.Base58CheckEncode(append(pl, flag)))
		case 1:
			wifString("crafted-short-key", refaddr.Base58CheckEncode(pl[:len(pl)-1-r.Intn(3)]))
		case 2:
			wifString("crafted-long", refaddr.Base58CheckEncode(append(pl, 1, byte(r.Intn(256)))))
		case 3:
			bad := make([]byte, 32)
			if r.Bool() {
				copy(bad, refaddr.CurveN.Bytes())
				if r.Bool() {
					for j := 16; j < 32; j++ {
						bad[j] = 0xff
					}
				}
			}
			p2 := append([]byte{ver}, bad...)
			if r.Bool() {
				p2 = append(p2, 1)
			}
			wifString("crafted-key-out-of-range", refaddr.Base58CheckEncode(p2))
		case 4:
			raw, _ := refaddr.Base58Decode(s)
			raw[len(raw)-1-r.Intn(4)] ^= 1 << uint(r.Intn(8))
			wifString("crafted-checksum-bit", refaddr.Base58Encode(raw))
		case 5:
			// an address string given to the WIF decoder and vice versa
			wifString("address-as-wif", validB58(r))
			checkString("wif-as-address", s)
		}
	}

	// (G) raw Base58
	r = root.Fork("b58")
	for i := 0; i < 500*scale; i++ {
		n := r.Intn(80)
		b := r.Bytes(n)
		for j := 0; j < r.Intn(4) && j < n; j++ {
			b[j] = 0
		}
		rawB58("random", b)
		sb := make([]byte, r.Intn(50))
		for j := range sb {
			sb[j] = b58a[r.Intn(58)]
			if r.Intn(60) == 0 {
				sb[j] = byte(r.Intn(256))
			}
		}
		rawB58Decode("random-alphabet", string(sb))
	}

	// (H) scripts -> address
	r = root.Fork("scripts")
	for i := 0; i < 700*scale; i++ {
		var scr []byte
		fam := ""
		switch r.Intn(8) {
		case 0:
			fam, scr = "p2pkh", refaddr.P2PKHScript(r.Bytes(20))
		case 1:
			fam, scr = "p2sh", refaddr.P2SHScript(r.Bytes(20))
		case 2:
			fam, scr = "witness", refaddr.WitnessScript(r.Intn(17), r.Bytes(2+r.Intn(39)))
		case 3: // near misses of the templates
			fam = "near-miss"
			base := [][]byte{refaddr.P2PKHScript(r.Bytes(20)), refaddr.P2SHScript(r.Bytes(20)), refaddr.WitnessScript(r.Intn(17), r.Bytes([]int{20, 32}[r.Intn(2)]))}[r.Intn(3)]
			scr = append([]byte{}, base...)
			switch r.Intn(4) {
			case 0:
				scr[r.Intn(3)%len(scr)] ^= byte(1 << uint(r.Intn(8)))
			case 1:
				scr[len(scr)-1] ^= byte(1 + r.Intn(255))
			case 2:
				scr = append(scr, byte(r.Intn(256)))
			default:
				scr = scr[:len(scr)-1]
			}
		case 4: // witness-like with wrong push length / out-of-range sizes
			fam = "witness-bad"
			l := []int{0, 1, 41, 42, 75, 76}[r.Intn(6)]
			scr = append([]byte{byte([]int{0, 0x51, 0x60, 0x4f, 0x61}[r.Intn(5)]), byte(l)}, r.Bytes(l)...)
			if r.Intn(3) == 0 {
				scr[1]++
			}
		case 5:
			fam, scr = "random", r.Bytes(r.Intn(50))
		case 6:
			fam, scr = "empty-or-tiny", r.Bytes(r.Intn(4))
		default:
			fam, scr = "op-return", append([]byte{0x6a, byte(20)}, r.Bytes(20)...)
		}
		scriptCase(fam, scr, r.Bool())
	}

	// dump
	b, _ := json.Marshal(&res)
	os.WriteFile(outfile, b, 0o644)
	for set, m := range distinct {
		buf := make([]byte, 0, 8*len(m))
		for k := range m {
			buf = binary.LittleEndian.AppendUint64(buf, k)
		}
		os.WriteFile(outfile+".set."+set, buf, 0o644)
	}
	jf.Close()
}

func maskData(d []byte) []byte {
	out := make([]byte, len(d))
	for i := range d {
		out[i] = d[i] & 31
	}
	return out
}

// randProg2 allows length 0
func randProg2(r *vlib.Rand, n int) []byte {
	if n == 0 {
		return []byte{}
	}
	return randProg(r, n)
}

// ---------------------------------------------------------------------------------------------

func main() {
	if len(os.Args) > 1 && os.Args[1] == "child" {
		child(os.Args[2:])
		return
	}
	run := vlib.Start("C15", "differential")
	repo := os.Getenv("VERIF_REPO")
	if repo == "" {
		repo = "/repo"
	}
	if err := refaddr.Calibrate(filepath.Join(repo, "lib/test/base58_encode_decode.json")); err != nil {
		fmt.Printf("BROKEN property=C15 reference model calibration failed: %v\n", err)
		os.Exit(2)
	}
	if err := refhd.Calibrate(); err != nil {
		fmt.Printf("BROKEN property=C15 refhd calibration failed: %v\n", err)
		os.Exit(2)
	}
	run.Count("calibration_ok", 1)

	// the BIP vector lists also go through gocoin (in-process: fixed, known-harmless inputs)
	jf = nil
	for _, s := range refaddr.VectorStrings() {
		rawBech32("bip-vector", s)
		checkString("bip-vector", s)
	}

	tmp, _ := os.MkdirTemp("", "c15")
	defer os.RemoveAll(tmp)
	nshards := 12
	scale := run.N(12, 800)
	seed := run.Rand("children").U64()
	var mu sync.Mutex
	brokenMsgs := []string{}
	vlib.Parallel(nshards, nshards, func(i int) {
		out := fmt.Sprintf("%s/out%d.json", tmp, i)
		jp := fmt.Sprintf("%s/journal%d", tmp, i)
		args := []string{"child", fmt.Sprint(i), fmt.Sprint(nshards), fmt.Sprint(seed), fmt.Sprint(scale), out, jp}
		cr := vlib.RunChild("", args, []string{"GOTRACEBACK=all", "GOMAXPROCS=2"}, nil, 60*time.Minute)
		mu.Lock()
		defer mu.Unlock()
		if cr.TimedOut {
			run.Inconclusive("worker %d: watchdog fired", i)
			return
		}
		if cr.ExitCode != 0 {
			fam, cs := readJournal(jp)
			run.Violation("crash/"+fam, fmt.Sprintf("worker died (exit %d signal %s) while processing the journaled case", cr.ExitCode, cr.Signal),
				map[string]interface{}{"family": fam, "case": q(cs), "case_hex": hex.EncodeToString([]byte(cs)), "output_tail": vlib.Tail(cr.Out, 3000), "args": args})
			return
		}
		var r result
		b, err := os.ReadFile(out)
		if err != nil || json.Unmarshal(b, &r) != nil {
			run.Inconclusive("worker %d: no result file", i)
			return
		}
		merge(run, &r)
		brokenMsgs = append(brokenMsgs, r.Broken...)
		sets, _ := filepath.Glob(out + ".set.*")
		for _, f := range sets {
			name := f[strings.LastIndex(f, ".set.")+5:]
			buf, _ := os.ReadFile(f)
			for o := 0; o+8 <= len(buf); o += 8 {
				run.Distinct(name, binary.LittleEndian.Uint64(buf[o:]))
			}
		}
		run.Count("workers_ok", 1)
	})
	os.RemoveAll(tmp) // run.Finish / BROKEN exit through os.Exit: deferred calls do not run
	// in-process results (vectors)
	merge(run, &res)
	brokenMsgs = append(brokenMsgs, res.Broken...)
	if len(brokenMsgs) > 0 {
		sort.Strings(brokenMsgs)
		fmt.Printf("BROKEN property=C15 the reference model failed its own assertions: %s\n", brokenMsgs[0])
		os.Exit(2)
	}
	if run.Get("theory_cases") == 0 || run.Get("accepted_both") == 0 || run.Get("wif_accepted_both") == 0 {
		run.Inconclusive("a generator family produced nothing (theory=%d accepted=%d wif=%d)", run.Get("theory_cases"), run.Get("accepted_both"), run.Get("wif_accepted_both"))
	}
	run.Assume("Base58 version bytes without a script mapping in gocoin (everything except 0,5,111,196,48) are only checked for 'never mapped to a script'")
	run.Assume("P2PK-shaped scripts (gocoin maps them to the P2PKH address of the key) are skipped: no supported destination of C15")
	run.Assume("WIF strings whose key is 0 or >= n: acceptance is recorded as an observation (counter), the property text does not name it")
	run.Assume("bech32.Encode with an empty hrp is not judged (no address has an empty hrp); decoding of an empty hrp is judged")
	run.Finish("each case = one string or destination given to gocoin's address/bech32/base58/WIF codec and to refaddr; verdict = same accept/refuse, same script, canonical re-encoding, plus the <=4-substitution detection guarantee; distinct_nontrivial = distinct strings derived from valid encodings (valid, mutated or crafted with a valid checksum)", "strings", "nontrivial", run.N(100000, 1000000))
}

func merge(run *vlib.Run, r *result) {
	for k, v := range r.Counts {
		run.Count(k, v)
	}
	seen := map[string]int64{}
	for _, v := range r.Vios {
		run.Violation(v.Class, v.What, v.Witness)
		seen[v.Class]++
	}
	for c, n := range r.VioCount {
		run.Count("violations_by_class/"+c, n)
	}
	for _, s := range r.Samples {
		if run.WantSample() {
			run.Sample(s)
		}
	}
}

func readJournal(p string) (fam, s string) {
	b, err := os.ReadFile(p)
	if err != nil || len(b) < 4 {
		return "unknown", ""
	}
	n := int(binary.LittleEndian.Uint32(b))
	if n > len(b)-4 {
		n = len(b) - 4
	}
	rec := b[4 : 4+n]
	i := strings.IndexByte(string(rec), 0)
	if i < 0 {
		return "unknown", string(rec)
	}
	return string(rec[:i]), string(rec[i+1:])
}
