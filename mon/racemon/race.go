// Package racemon implements the C11 monitor: the fork/reorg workloads of C06 plus blocks with
// hundreds of inputs (so that parallel hashing, parallel script verification and the parallel UTXO
// insert/delete workers all have work), background snapshot saves that finish, are hurried or are
// aborted by the next commit, and reader goroutines using the UTXO set and the block store the way
// the client's network threads do - executed in a -race build at GOMAXPROCS 1/2/4/16 with
// pseudo-random yields at the hook points. Deciding oracles: the Go race detector (reports with a
// gocoin frame), the reference model (verdict, tip, UTXO dump after every delivery must not depend
// on the schedule), and the snapshot observer (a UTXO.db that becomes visible under its final name
// must hold exactly the reference UTXO set of the block named in its header).
package racemon

import (
	"bytes"
	"encoding/binary"
	"fmt"
	"io"
	"os"
	"runtime"
	"strings"
	"sync"
	"sync/atomic"
	"time"

	"github.com/piotrnar/gocoin/lib/btc"
	"github.com/piotrnar/gocoin/lib/chain"
	"github.com/piotrnar/gocoin/lib/others/vhook"
	"github.com/piotrnar/gocoin/lib/utxo"
	"verif/lib/vlib"
	"verif/mon/chainsim"
	"verif/mon/forksmon"
	"verif/ref/refchain"
)

type snapshot struct {
	data []byte
}

func Child(seed int64, tier, stateFile string, rounds int, saveMs int, compress bool, slowDisk bool) {
	run := vlib.StartChild("C11", seed, tier)
	defer run.ExportState(stateFile)
	utxo.UTXO_WRITING_TIME_TARGET = time.Duration(saveMs) * time.Millisecond
	r := vlib.NewRand(uint64(seed)).Fork("C11")
	dir, _ := os.MkdirTemp("", "race")
	defer os.RemoveAll(dir)
	p := chainsim.DefaultParams(uint64(seed), false)
	p.BIP34, p.BIP66, p.BIP65, p.CSV, p.Segwit, p.Taproot = 104, 105, 106, 107, 108, 109
	s := chainsim.NewSim(run, r, p, dir, chainsim.NodeOpts{CompressUTXO: compress})
	g := s.G

	// chain.TrustedTxChecker as the client's txpool installs it: vouches for transactions it has verified already
	var trustMu sync.Mutex
	trusted := map[refchain.Hash]bool{}
	chain.TrustedTxChecker = func(tx *btc.Tx) bool {
		var h refchain.Hash
		copy(h[:], tx.WTxID().Hash[:]) // by wtxid, as the client's checker does: a witness that differs is not what was verified
		trustMu.Lock()
		defer trustMu.Unlock()
		return trusted[h]
	}

	// snapshot observer: copy the file as soon as it is visible under its final name
	var snapMu sync.Mutex
	var snaps []snapshot
	var hookHits atomic.Int64
	var sigMu sync.Mutex
	order := map[string]int{}
	vhook.SetObserver(func(name string) {
		hookHits.Add(1)
		sigMu.Lock()
		order[name]++
		sigMu.Unlock()
		if slowDisk {
			// a disk slower than the snapshot producer: the writer goroutine falls behind until the producer
			// blocks on the full chunk channel (the abort of the next commit is then taken in that wait loop)
			switch name {
			case "utxo.save.tmp_created":
				time.Sleep(60 * time.Millisecond)
			case "utxo.save.chunk_written":
				time.Sleep(1500 * time.Microsecond)
			}
		}
		if name == "utxo.save.after_final_rename" {
			if b, err := os.ReadFile(s.N.Dir + "UTXO.db"); err == nil {
				snapMu.Lock()
				snaps = append(snaps, snapshot{b})
				snapMu.Unlock()
			}
		}
	})
	checkSnaps := func() bool {
		snapMu.Lock()
		l := snaps
		snaps = nil
		snapMu.Unlock()
		for _, sn := range l {
			if !checkSnapshot(run, s, sn.data) {
				return false
			}
		}
		return true
	}

	// readers: what network threads do concurrently with the main thread
	var stop atomic.Bool
	var wg sync.WaitGroup
	var tgtMu sync.Mutex
	var targets []btc.TxPrevOut
	var blockHashes []*btc.Uint256
	var reads atomic.Int64
	nReaders := 3
	if os.Getenv("VERIF_POISON_FREE") == "1" {
		// poison-on-free jobs judge the life times of records among the goroutines of block processing itself (the
		// property's quantifier); readers outside of it are left out there (see DESIGN.md, observation on UnspentGet)
		nReaders = 0
	}
	for i := 0; i < nReaders; i++ {
		wg.Add(1)
		go func(i int) {
			defer wg.Done()
			rr := vlib.NewRand(uint64(seed) + uint64(i)*977)
			for !stop.Load() {
				tgtMu.Lock()
				var po *btc.TxPrevOut
				var bh *btc.Uint256
				if len(targets) > 0 {
					t := targets[rr.Intn(len(targets))]
					po = &t
				}
				if len(blockHashes) > 0 {
					bh = blockHashes[rr.Intn(len(blockHashes))]
				}
				tgtMu.Unlock()
				if po != nil {
					s.N.Ch.Unspent.UnspentGet(po)
					s.N.Ch.Unspent.TxPresent(btc.NewUint256(po.Hash[:]))
				}
				if bh != nil && rr.Intn(4) == 0 {
					s.N.Ch.Blocks.BlockGet(bh)
				}
				reads.Add(1)
				if rr.Intn(8) == 0 {
					time.Sleep(time.Duration(rr.Intn(300)) * time.Microsecond)
				}
			}
		}(i)
	}
	addTargets := func(b *refchain.Block) {
		tgtMu.Lock()
		defer tgtMu.Unlock()
		h := b.Hash()
		blockHashes = append(blockHashes, btc.NewUint256(h[:]))
		for _, t := range b.Txs {
			id := t.TxID()
			for i := 0; i < len(t.Out) && i < 3; i++ {
				targets = append(targets, btc.TxPrevOut{Hash: id, Vout: uint32(i)})
			}
			for _, in := range t.In[:1] {
				targets = append(targets, btc.TxPrevOut{Hash: in.Prev.Hash, Vout: in.Prev.Idx})
			}
		}
		if len(targets) > 4000 {
			targets = targets[len(targets)-4000:]
		}
		if len(blockHashes) > 60 {
			blockHashes = blockHashes[len(blockHashes)-60:]
		}
	}
	finish := func() {
		stop.Store(true)
		wg.Wait()
		s.Close() // Close racing/after a save
		checkSnaps()
		// the final snapshot written by Close must describe the final tip
		if b, err := os.ReadFile(s.N.Dir + "UTXO.db"); err == nil {
			checkSnapshot(run, s, b)
		}
		run.Count("hook_hits", hookHits.Load())
		run.Count("reader_ops", reads.Load())
		sigMu.Lock()
		sig := fmt.Sprint(order)
		run.Count("saves_completed", int64(order["utxo.save.after_final_rename"]))
		run.Count("saves_aborted", int64(order["utxo.save.aborted"]))
		run.Count("undo_files_written", int64(order["utxo.undo.renamed"]))
		run.Count("producer_waits_on_full_chunk_channel", int64(order["utxo.save.channel_full"]))
		if slowDisk {
			run.Count("slow_disk_saves_aborted", int64(order["utxo.save.aborted"]))
			if order["utxo.save.channel_full"] > 0 && order["utxo.save.aborted"] > 0 {
				run.Inc("slow_disk_histories_with_abort_while_channel_full")
			}
		}
		run.Count("blocks_flushed_to_disk", int64(order["blockdb.write.index_written"]))
		sigMu.Unlock()
		run.Distinct("hook_count_signatures", sig)
	}
	defer finish()

	// stall inspection: when no hook point has been hit for 30 s the goroutine stacks are looked at. A goroutine that
	// waits in UnspentDB.abortWriting (sending the abort request, or waiting for the writer to finish) while no
	// UnspentDB.save goroutine exists can never be woken: nobody else receives that request or ends that wait. That
	// pattern - not the time that has passed - is the verdict; anything else is left to the parent's watchdog.
	go func() {
		last, stalled := int64(-1), 0
		for {
			time.Sleep(5 * time.Second)
			cur := hookHits.Load()
			if cur != last {
				last, stalled = cur, 0
				continue
			}
			if stalled++; stalled != 6 {
				continue
			}
			buf := make([]byte, 8<<20)
			dump := string(buf[:runtime.Stack(buf, true)])
			var waiter string
			saver := false
			for _, gr := range strings.Split(dump, "\n\n") {
				if strings.Contains(gr, "utxo.(*UnspentDB).save(") {
					saver = true
				}
				if strings.Contains(gr, "utxo.(*UnspentDB).abortWriting(") && (strings.Contains(gr, "[chan send") || strings.Contains(gr, "[semacquire") || strings.Contains(gr, "[sync.WaitGroup.Wait")) {
					waiter = gr
				}
			}
			if waiter != "" && !saver {
				run.Violation("deadlock/abortWriting-without-a-running-save", "a goroutine waits in UnspentDB.abortWriting for a snapshot writer that does not exist (the database mutex is held: every later commit, undo, Idle and Close blocks)",
					map[string]interface{}{"waiting_goroutine": vlib.Tail([]byte(waiter), 1800), "journal_tail": tailN(s.Log, 12)})
				run.ExportState(stateFile)
				os.Exit(0)
			}
		}
	}()

	// every few deliveries a snapshot save is started immediately before the node gets the block, so
	// that the commit runs into a save that has only just been launched
	s.BeforeNodeDeliver = func() {
		// an explicit save of a set that has nothing unsaved (the text UI's "save" right after a completed save): the
		// commit that follows has to stop this writer like any other. (Not before the first block: a set that has never
		// seen a block has no block to name - Save then writes a 16-byte file that the loader skips.)
		if u := s.N.Ch.Unspent; u.LastBlockHeight > 0 && !u.DirtyDB.Get() && !u.WritingInProgress.Get() && r.Intn(2) == 0 {
			if u.Save() {
				run.Inc("explicit_saves_of_a_clean_set_started_right_before_commit")
			}
			return
		}
		switch r.Intn(6) {
		case 0:
			if s.N.Ch.Idle() {
				run.Inc("saves_started_right_before_commit")
			}
		case 1:
			if s.N.Ch.Idle() {
				run.Inc("saves_started_right_before_commit")
			}
			s.N.Ch.Unspent.HurryUp()
		}
	}
	offer := func(b *refchain.Block, fam string) (refchain.Result, bool) {
		rr, _, ok := s.Offer(b, fam)
		if ok {
			addTargets(b)
		}
		return rr, ok
	}
	for s.Ref.Tip.Height < 112 {
		mx := 0
		if s.Ref.Tip.Height >= 101 {
			mx = 5
		}
		if rr, ok := offer(g.RandomBlock(s.Ref.Tip, mx), "base"); !ok || rr.Stage != "connected" {
			return
		}
	}
	// ballast: thousands of never-spent outputs make the snapshot several 64 KiB chunks long, so that
	// a slow snapshot writer is still busy when the next block arrives (=> abort path)
	for k := 0; k < 2; k++ {
		view := g.View(s.Ref.Tip)
		av := g.Spendable(view, s.Ref.Tip.Height+1, true)
		if len(av) == 0 {
			break
		}
		c := view[av[0]]
		nout := 3000
		outs := make([]refchain.TxOut, nout)
		per := c.Value / 2 / uint64(nout)
		for i := range outs {
			outs[i] = refchain.TxOut{Value: per, Script: g.ScriptOf(chainsim.KOther, r)}
		}
		outs = append(outs, g.OutTrue(c.Value-per*uint64(nout)-1000))
		t := g.Spend([]refchain.OutPoint{av[0]}, []refchain.Coin{c}, outs, 1, 0, nil, -1)
		if rr, ok := offer(g.Build(chainsim.BlockSpec{Parent: s.Ref.Tip, Txs: []*refchain.Tx{t}, Fees: 1000}), "ballast"); !ok || rr.Stage != "connected" {
			return
		}
	}
	if slowDisk {
		// >100 records of ~66 KB each: more 64 KiB chunks than the snapshot's chunk channel holds
		for k := 0; k < 10; k++ {
			view := g.View(s.Ref.Tip)
			var src refchain.OutPoint
			found := false
			for _, op := range g.Spendable(view, s.Ref.Tip.Height+1, true) {
				if view[op].Value > 1000000 {
					src, found = op, true
					break
				}
			}
			if !found {
				break
			}
			c := view[src]
			var txs []*refchain.Tx
			for j := 0; j < 14; j++ {
				outs := []refchain.TxOut{g.OutTrue(c.Value - 8)}
				for q := 0; q < 7; q++ {
					scr := bytes.Repeat([]byte{0x51}, 9400)
					copy(scr[1:], r.Bytes(8))
					for x := 1; x < 9; x++ {
						scr[x] = 0x50 + scr[x]&0x0f | 1 // OP_1..OP_15: no sigops, never OP_RETURN
					}
					outs = append(outs, refchain.TxOut{Value: 1, Script: scr})
				}
				t := g.Spend([]refchain.OutPoint{src}, []refchain.Coin{c}, outs, 1, 0, nil, -1)
				txs = append(txs, t)
				src = refchain.OutPoint{Hash: t.TxID(), Idx: 0}
				c = refchain.Coin{Value: c.Value - 8, Script: outs[0].Script, Height: s.Ref.Tip.Height + 1}
			}
			if rr, ok := offer(g.Build(chainsim.BlockSpec{Parent: s.Ref.Tip, Txs: txs, Fees: 14}), "big-records"); !ok || rr.Stage != "connected" {
				return
			}
		}
	}
	for round := 0; round < rounds; round++ {
		// 1. fan-out: one transaction with hundreds of outputs
		view := g.View(s.Ref.Tip)
		height := s.Ref.Tip.Height + 1
		av := g.Spendable(view, height, true)
		var src refchain.OutPoint
		found := false
		for _, op := range av {
			if view[op].Value > 50000000 {
				src, found = op, true
				break
			}
		}
		if !found {
			if _, ok := offer(g.RandomBlock(s.Ref.Tip, 3), "filler"); !ok {
				return
			}
			continue
		}
		c := view[src]
		nout := 120 + r.Intn(260)
		outs := make([]refchain.TxOut, nout)
		per := c.Value / uint64(nout+2)
		kinds := []chainsim.Kind{chainsim.KP2PKH, chainsim.KP2WPKH, chainsim.KTrue, chainsim.KP2SHTrue, chainsim.KP2WSHTrue, chainsim.KP2PKH, chainsim.KP2WPKH}
		for i := range outs {
			outs[i] = refchain.TxOut{Value: per, Script: g.ScriptOf(kinds[r.Intn(len(kinds))], r)}
		}
		fan := g.Spend([]refchain.OutPoint{src}, []refchain.Coin{c}, outs, 2, 0, nil, -1)
		if rr, ok := offer(g.Build(chainsim.BlockSpec{Parent: s.Ref.Tip, Txs: []*refchain.Tx{fan}, Fees: c.Value - per*uint64(nout)}), "fan-out"); !ok || rr.Stage != "connected" {
			return
		}
		maybeIdle(s, run, r)
		// 2. a block spending many of them (sometimes with one failing script => early return while
		// verification goroutines are still in flight)
		fid := fan.TxID()
		var txs []*refchain.Tx
		var fees uint64
		bad := r.Intn(5) == 0
		nspend := 50 + r.Intn(nout-60)
		badAt := r.Intn(nspend)
		for i := 0; i < nspend; {
			k := 1 + r.Intn(3)
			if i+k > nspend {
				k = nspend - i
			}
			var ops []refchain.OutPoint
			var cs []refchain.Coin
			for j := 0; j < k; j++ {
				ops = append(ops, refchain.OutPoint{Hash: fid, Idx: uint32(i + j)})
				cs = append(cs, refchain.Coin{Value: per, Script: outs[i+j].Script, Height: height})
			}
			bi := -1
			if bad && badAt >= i && badAt < i+k {
				bi = badAt - i
			}
			t := g.Spend(ops, cs, []refchain.TxOut{g.OutTrue(per*uint64(k) - 50), {Value: 0, Script: []byte{0x6a, 0x01, byte(i)}}}, 2, 0, nil, bi)
			txs = append(txs, t)
			fees += 50
			i += k
		}
		fam := "big-block/valid"
		if bad {
			fam = "big-block/one-script-fails"
		}
		run.Count("inputs_in_big_blocks", int64(nspend))
		if _, ok := offer(g.Build(chainsim.BlockSpec{Parent: s.Ref.Tip, Txs: txs, Fees: fees}), fam); !ok {
			return
		}
		maybeIdle(s, run, r)
		if !checkSnaps() {
			return
		}
		// 2b. many multi-output records, then a block that spends some outputs of each of them: more than 32
		// touched transactions => UnspentDB.commit runs several delete workers in parallel on partially spent
		// records (and several insert workers for the block before)
		if !bad && len(txs) >= 40 {
			h2 := s.Ref.Tip.Height + 1
			var recs []*refchain.Tx
			var fees2 uint64
			for _, pt := range txs {
				v := pt.Out[0].Value
				nn := 3 + r.Intn(5)
				if v < uint64(nn)*600+100 {
					continue
				}
				os2 := make([]refchain.TxOut, nn)
				for q := range os2 {
					os2[q] = refchain.TxOut{Value: (v - 100) / uint64(nn), Script: g.ScriptOf(kinds[r.Intn(len(kinds))], r)}
				}
				t := g.Spend([]refchain.OutPoint{{Hash: pt.TxID(), Idx: 0}}, []refchain.Coin{{Value: v, Script: pt.Out[0].Script, Height: h2 - 1}}, os2, 2, 0, nil, -1)
				fees2 += v - (v-100)/uint64(nn)*uint64(nn)
				recs = append(recs, t)
			}
			if rr, ok := offer(g.Build(chainsim.BlockSpec{Parent: s.Ref.Tip, Txs: recs, Fees: fees2}), "many-records/create"); !ok || rr.Stage != "connected" {
				return
			}
			maybeIdle(s, run, r)
			var sp []*refchain.Tx
			var fees3 uint64
			for _, rt := range recs {
				nsp := 1 + r.Intn(len(rt.Out)-1) // never all of them: the record survives partially spent
				first := r.Intn(len(rt.Out) - nsp + 1)
				var ops []refchain.OutPoint
				var cs []refchain.Coin
				var in uint64
				for q := first; q < first+nsp; q++ {
					ops = append(ops, refchain.OutPoint{Hash: rt.TxID(), Idx: uint32(q)})
					cs = append(cs, refchain.Coin{Value: rt.Out[q].Value, Script: rt.Out[q].Script, Height: h2})
					in += rt.Out[q].Value
				}
				sp = append(sp, g.Spend(ops, cs, []refchain.TxOut{g.OutTrue(in - 60)}, 2, 0, nil, -1))
				fees3 += 60
			}
			run.Count("records_partially_spent_in_one_block", int64(len(sp)))
			if _, ok := offer(g.Build(chainsim.BlockSpec{Parent: s.Ref.Tip, Txs: sp, Fees: fees3}), "many-records/partial-spend"); !ok {
				return
			}
			maybeIdle(s, run, r)
			if !checkSnaps() {
				return
			}
		}
		// 2c. what the client does with transactions it has already verified in its pool: chain.TrustedTxChecker vouches
		// for some transactions of a block, so that no verifier is started for them. An invalid block whose error is
		// found inside the transaction loop (unknown input) behind a big unverified transaction and a vouched one: the
		// early return must still wait for the verifiers in flight before the block's memory is released.
		if view2 := g.View(s.Ref.Tip); true {
			h3 := s.Ref.Tip.Height + 1
			av2 := g.Spendable(view2, h3, true)
			if len(av2) >= 40 {
				var big []refchain.OutPoint
				var bigC []refchain.Coin
				var in uint64
				for _, op := range av2[:30] {
					big = append(big, op)
					bigC = append(bigC, view2[op])
					in += view2[op].Value
				}
				u := g.Spend(big, bigC, []refchain.TxOut{g.OutTrue(in - 100)}, 2, 0, nil, -1)
				tc := view2[av2[31]]
				t := g.Spend([]refchain.OutPoint{av2[31]}, []refchain.Coin{tc}, []refchain.TxOut{g.OutTrue(tc.Value - 10)}, 2, 0, nil, -1)
				var ghost refchain.OutPoint
				copy(ghost.Hash[:], r.Bytes(32))
				x := g.Spend([]refchain.OutPoint{ghost}, []refchain.Coin{{Value: 1000, Script: []byte{0x51}}}, []refchain.TxOut{g.OutTrue(900)}, 2, 0, nil, -1)
				valid := r.Intn(3) == 0
				txs3 := []*refchain.Tx{u, t}
				fees3 := uint64(110)
				fam3 := "vouched-tx/valid"
				if !valid {
					txs3 = append(txs3, x)
					fam3 = "vouched-tx/unknown-input-behind-it"
				}
				trustMu.Lock()
				trusted[t.WTxID()] = true
				trustMu.Unlock()
				if _, ok := offer(g.Build(chainsim.BlockSpec{Parent: s.Ref.Tip, Txs: txs3, Fees: fees3}), fam3); !ok {
					return
				}
				run.Inc("blocks_with_a_vouched_transaction")
				maybeIdle(s, run, r)
			}
		}
		// 3. a small block tree (forks, reorgs, invalid branches) with idle calls inside
		if !forksmon.OneTree(s, run, r, round) {
			return
		}
		if !checkSnaps() {
			return
		}
	}
	run.Count("reorgs_observed", int64(s.Ref.Reorgs))
	if run.WantSample() {
		run.Sample(map[string]interface{}{"final_height": s.Ref.Tip.Height, "reorgs": s.Ref.Reorgs, "save_target_ms": saveMs, "journal_tail": tailN(s.Log, 8)})
	}
}

func tailN(l []string, n int) []string {
	if len(l) > n {
		return l[len(l)-n:]
	}
	return l
}

func maybeIdle(s *chainsim.Sim, run *vlib.Run, r *vlib.Rand) {
	if !chainsim.PurgeUnspendable && r.Intn(12) == 0 {
		// the operator's "purge" command while a snapshot save has just been started: records disappear and are rewritten
		// under the writer's feet unless it is stopped first (from here on the node may or may not hold unspendable
		// outputs: chainsim.PurgedByHand)
		started := s.N.Ch.Idle()
		s.N.Ch.Unspent.PurgeUnspendable(true)
		chainsim.PurgedByHand = true
		run.Inc("operator_purge_commands")
		if started {
			run.Inc("operator_purge_commands_right_after_a_save_was_started")
		}
		return
	}
	switch r.Intn(6) {
	case 0, 1:
		if s.N.Ch.Idle() {
			run.Inc("saves_started")
		}
	case 2:
		if s.N.Ch.Idle() {
			run.Inc("saves_started")
		}
		s.N.Ch.Unspent.HurryUp()
		run.Inc("hurryups")
	case 3:
		if s.N.Ch.Idle() {
			run.Inc("saves_started")
		}
		for k := 0; k < 2000 && s.N.Ch.Unspent.WritingInProgress.Get(); k++ {
			time.Sleep(time.Millisecond)
		}
	}
}

// checkSnapshot parses a UTXO.db image and compares it with the reference UTXO set of the block
// named in its header.
func checkSnapshot(run *vlib.Run, s *chainsim.Sim, b []byte) bool {
	if len(b) < 48 {
		run.Violation("snapshot/short-file", "a UTXO.db visible under its final name is shorter than its header", map[string]interface{}{"len": len(b)})
		return false
	}
	u64 := binary.LittleEndian.Uint64(b[0:8])
	compressed := u64&0x8000000000000000 != 0
	height := uint32(u64)
	var h refchain.Hash
	copy(h[:], b[8:40])
	cnt := binary.LittleEndian.Uint64(b[40:48])
	want, ok := s.Ref.UtxoAt(h)
	wit := map[string]interface{}{"header_height": height, "header_hash": h.String(), "records": cnt, "compressed": compressed}
	if !ok {
		run.Violation("snapshot/header-names-unknown-or-invalid-block", "snapshot header names a block that is not a valid block of the reference", wit)
		return false
	}
	got := refchain.UTXO{}
	rd := bytes.NewReader(b[48:])
	for i := uint64(0); i < cnt; i++ {
		le, err := btc.ReadVLen(rd)
		if err != nil {
			run.Violation("snapshot/truncated", "snapshot has fewer records than its header claims", wit)
			return false
		}
		if le > uint64(rd.Len()) {
			run.Violation("snapshot/truncated", "snapshot record cut short", wit)
			return false
		}
		rec := make([]byte, le)
		if _, err := io.ReadFull(rd, rec); err != nil && le > 0 {
			run.Violation("snapshot/truncated", "snapshot record cut short", wit)
			return false
		}
		if le < 33 { // a record is at least a txid and a few counters: garbage where a record should be
			run.Violation("snapshot/garbled", "snapshot holds something that is no record where a record should be", wit)
			return false
		}
		var ur *utxo.UtxoRec
		decode := func() (ok bool) {
			defer func() {
				if recover() != nil {
					ok = false
				}
			}()
			if compressed {
				var x utxo.UtxoRec
				utxo.NewUtxoRecOwnC(rec, &x, nil)
				ur = &x
			} else {
				var x utxo.UtxoRec
				utxo.NewUtxoRecOwnU(rec, &x, nil)
				ur = &x
			}
			return true
		}
		if !decode() {
			run.Violation("snapshot/garbled", "a record of the snapshot cannot be decoded", wit)
			return false
		}
		for vout, o := range ur.Outs {
			if o == nil {
				continue
			}
			var op refchain.OutPoint
			copy(op.Hash[:], ur.TxID[:])
			op.Idx = uint32(vout)
			got[op] = refchain.Coin{Value: o.Value, Script: append([]byte{}, o.PKScr...), Height: ur.InBlock, Coinbase: ur.Coinbase}
		}
	}
	if d := chainsim.DiffNodeUTXO(got, want); d != "" {
		wit["diff"] = d
		run.Violation("snapshot/content-differs-from-header-block", "a UTXO.db visible under its final name does not hold the UTXO set of the block named in its header: "+d, wit)
		return false
	}
	run.Inc("snapshots_inspected")
	return true
}

func Main() {
	if len(os.Args) > 1 && os.Args[1] == "child" {
		var seed int64
		var rounds, saveMs int
		fmt.Sscan(os.Args[2], &seed)
		fmt.Sscan(os.Args[5], &rounds)
		fmt.Sscan(os.Args[6], &saveMs)
		Child(seed, os.Args[3], os.Args[4], rounds, saveMs, os.Args[7] == "c", len(os.Args) > 8 && os.Args[8] == "slow")
		return
	}
	run := vlib.Start("C11", "exploration")
	tmp, _ := os.MkdirTemp("", "racemon")
	defer os.RemoveAll(tmp)
	bindir := os.Getenv("VERIF_BIN_DIR")
	type job struct {
		procs, saveMs int
		seed          int64
		race          bool
		compress      bool
		slow          bool
	}
	var jobs []job
	reps := run.N(2, 30)
	rounds := run.N(3, 5)
	k := 0
	for rep := 0; rep < reps; rep++ {
		for _, p := range []int{1, 2, 4, 16} {
			for _, ms := range []int{0, 50, 2000} {
				k++
				if false {
					continue
				}
				jobs = append(jobs, job{p, ms, run.Seed*1000 + int64(k), true, k%2 == 0, false})
			}
		}
		// one plain (non-race) run per repetition keeps the schedule fast and different
		jobs = append(jobs, job{16, 50, run.Seed*1000 + 900 + int64(rep), false, rep%2 == 0, false})
		// slow disk + a set larger than the chunk channel + un-throttled writer: aborts arrive while the producer
		// waits for the writer
		jobs = append(jobs, job{[]int{4, 1, 2, 16}[rep%4], 0, run.Seed*1000 + 950 + int64(rep), rep%2 == 0, rep%2 == 1, true})
	}
	var mu sync.Mutex
	vlib.Parallel(len(jobs), 5, func(i int) {
		j := jobs[i]
		bin := bindir + "/c11.main"
		if j.race {
			bin = bindir + "/c11.race"
		}
		sf := fmt.Sprintf("%s/state%d.json", tmp, i)
		c := "u"
		if j.compress {
			c = "c"
		}
		args := []string{"child", fmt.Sprint(j.seed), run.Tier, sf, fmt.Sprint(rounds), fmt.Sprint(j.saveMs), c}
		if j.slow {
			args = append(args, "slow")
		}
		env := []string{fmt.Sprintf("GOMAXPROCS=%d", j.procs), fmt.Sprintf("VERIF_YIELD=%d", j.seed), "GORACE=halt_on_error=0 exitcode=66"}
		if i%3 == 1 {
			env = append(env, "VERIF_PURGE=1") // utxo.UTXO_PURGE_UNSPENDABLE, as a freshly configured client runs
			run.Inc("histories_with_purge_unspendable")
		}
		if i%4 == 2 {
			env = append(env, "VERIF_POISON_FREE=1") // records live as long as on the client's custom heap: freed = overwritten
			run.Inc("histories_with_poison_on_free")
		}
		res := vlib.RunChild(bin, args, env, nil, 40*time.Minute)
		desc := map[string]interface{}{"args": args, "GOMAXPROCS": j.procs, "race_build": j.race, "VERIF_YIELD": j.seed}
		mu.Lock()
		defer mu.Unlock()
		if res.TimedOut {
			run.Inconclusive("child watchdog fired: %v", desc)
			return
		}
		okState := run.ImportState(sf)
		out := string(res.Out)
		if strings.Contains(out, "WARNING: DATA RACE") {
			for _, rr := range vlib.ParseRaces(out, "github.com/piotrnar/gocoin/") {
				if strings.HasPrefix(rr.Sig, "(no frame") {
					run.Inc("race_reports_without_gocoin_frame")
					continue
				}
				d2 := map[string]interface{}{"child": desc, "report": rr.Block, "count": rr.N}
				run.Violation("race:"+rr.Sig, "data race: "+rr.Sig, d2)
			}
		}
		if strings.Contains(out, "fatal error: concurrent map") {
			desc["output_tail"] = vlib.Tail(res.Out, 4000)
			run.Violation("fatal/concurrent-map-access", "fatal error: concurrent map access while processing blocks", desc)
			return
		}
		if (res.ExitCode != 0 && res.ExitCode != 66) || !okState {
			desc["output_tail"] = vlib.Tail(res.Out, 4000)
			run.Violation("child-died", fmt.Sprintf("worker process died (exit %d %s)", res.ExitCode, res.Signal), desc)
			return
		}
		run.Inc("histories")
		if j.race {
			run.Inc("histories_race_build")
		}
		run.Distinct("configs", j.procs, j.saveMs, j.race, j.compress, j.slow)
	})
	if run.Get("slow_disk_histories_with_abort_while_channel_full") == 0 && run.Violations() == 0 {
		run.Inconclusive("no history had a snapshot aborted while its producer was waiting on the full chunk channel")
	}
	if run.Get("snapshots_inspected") == 0 && run.Violations() == 0 {
		run.Inconclusive("no snapshot was inspected")
	}
	run.Assume("the race detector sees only executed access pairs; UTXO records allocated by the mmap allocator have no shadow (records live on the Go heap in this harness; the allocator is covered by C20)")
	run.Assume("reader goroutines use only the calls the client's network threads use concurrently with block processing (UnspentGet, TxPresent, BlockGet)")
	os.RemoveAll(tmp) // Finish exits the process: deferred clean-up would not run
	run.Finish("each delivery = one block of a history with 100-400-input blocks, fan-out transactions, block trees with reorganisations, Idle/HurryUp/wait between blocks and 3 concurrent reader goroutines, run in a -race build at GOMAXPROCS 1/2/4/16 with pseudo-random yields at hook points and snapshot-writer speeds 0/50ms/2s; distinct_nontrivial = distinct per-run hook-hit-count signatures (a proxy for distinct interleavings of saver/aborter/committer)",
		"deliveries", "hook_count_signatures", 3)
}
