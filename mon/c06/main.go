// C06 — the tip is the most-work valid chain and the UTXO set equals its replay (see mon/forksmon).
package main

import "verif/mon/forksmon"

func main() { forksmon.Main() }
