// C02 — signature hashes equal the legacy, BIP143 and BIP341/342 definitions, no digest where the
// specification defines none, caches never change a result.
//
// Differential monitor: Tx.SignatureHash, Tx.WitnessSigHash and Tx.TaprootSigHash are compared
// byte for byte with the cache-free reference verif/ref/refsighash on random transactions, input
// indices, script codes (with/without OP_CODESEPARATOR, unparsable tails), amounts, hash types
// (every byte value for taproot, edge and random 32-bit values for legacy/BIP143), annex, key and
// script path. Cache schedules: random permutations of mixed digest requests on ONE Tx object,
// sequentially and from 8 goroutines in a -race build. End-to-end: spends signed by the
// independent signer verif/ref/refec over the reference digest must verify in
// script.VerifyTxScript (FindAndDelete, OP_CODESEPARATOR positions, annex, script path), and
// where BIP341 defines no digest a signature forged over whatever digest gocoin uses must NOT.
package main

import (
	"bytes"
	"crypto/sha256"
	"encoding/json"
	"fmt"
	"math/big"
	"os"
	"path/filepath"
	"sort"
	"strconv"
	"strings"
	"sync"
	"time"

	"github.com/piotrnar/gocoin/lib/btc"
	"github.com/piotrnar/gocoin/lib/script"
	"verif/lib/vlib"
	"verif/ref/refec"
	"verif/ref/refsighash"
	"verif/ref/reftx"
)

const testDir = "/repo/lib/test"

type finding struct {
	Class   string                 `json:"class"`
	What    string                 `json:"what"`
	Witness map[string]interface{} `json:"witness"`
}

type result struct {
	Counters map[string]int64 `json:"counters"`
	Findings []finding        `json:"findings"`
	Classes  map[string]int64 `json:"classes"`
	Keys     string           `json:"keys"` // hex, 8 bytes per distinct-set element ("digests")
	Combos   []string         `json:"combos"`
	Samples  []interface{}    `json:"samples"`

	mu       sync.Mutex
	perClass map[string]int
	combos   map[string]bool
	keys     bytes.Buffer
}

func newResult() *result {
	return &result{Counters: map[string]int64{}, Classes: map[string]int64{}, perClass: map[string]int{}, combos: map[string]bool{}}
}

func (r *result) count(k string) { r.mu.Lock(); r.Counters[k]++; r.mu.Unlock() }
func (r *result) combo(k string) { r.mu.Lock(); r.combos[k] = true; r.mu.Unlock() }
func (r *result) key(d []byte) {
	r.mu.Lock()
	r.keys.Write(d[:8])
	r.mu.Unlock()
}
func (r *result) sample(v interface{}) {
	r.mu.Lock()
	if len(r.Samples) < 3 {
		r.Samples = append(r.Samples, v)
	}
	r.mu.Unlock()
}
func (r *result) report(class, what string, w map[string]interface{}) {
	r.mu.Lock()
	defer r.mu.Unlock()
	r.Classes[class]++
	r.perClass[class]++
	if r.perClass[class] > 3 {
		return
	}
	r.Findings = append(r.Findings, finding{class, what, w})
}

func txWitness(t *reftx.Tx, spent []reftx.TxOut) map[string]interface{} {
	w := map[string]interface{}{"tx_hex": vlib.Hex(t.Serialize(true))}
	if spent != nil {
		var ss []map[string]interface{}
		for _, s := range spent {
			ss = append(ss, map[string]interface{}{"value": uint64(s.Value), "script": vlib.Hex(s.PkScript)})
		}
		w["spent_outputs"] = ss
	}
	return w
}

func recoverCall(f func() []byte) (out []byte, pan string) {
	defer func() {
		if r := recover(); r != nil {
			pan = fmt.Sprint(r)
		}
	}()
	return f(), ""
}

// ---------------------------------------------------------------------------------------------
// A. single digests

func isZero(b []byte) bool {
	for _, v := range b {
		if v != 0 {
			return false
		}
	}
	return true
}

func digestLegacy(r *vlib.Rand, res *result) {
	t, _ := randTx(r, 40, 40)
	tx := toBtc(t, nil)
	for k := 0; k < 6; k++ {
		idx := r.Intn(len(t.In))
		sc, fam := randScriptCode(r)
		ht := randHashType(r)
		want := refsighash.Legacy(t, sc, idx, ht)
		got, pan := recoverCall(func() []byte { return tx.SignatureHash(sc, idx, int32(ht)) })
		res.count("digests")
		res.count("digests_legacy")
		res.key(want[:])
		kind := hashTypeKind(ht)
		single := ht&0x1f == 3 && idx >= len(t.Out)
		if single {
			res.count("legacy_single_out_of_range(ONE)")
			kind += "/out-of-range"
		}
		res.combo("legacy " + fam + " " + kind)
		w := txWitness(t, nil)
		w["algo"], w["script_code"], w["input"], w["hash_type"] = "legacy", vlib.Hex(sc), idx, ht
		w["expected"], w["observed"] = vlib.Hex(want[:]), vlib.Hex(got)
		if pan != "" {
			res.report("panic/SignatureHash", "Tx.SignatureHash panics: "+pan, w)
			continue
		}
		if !bytes.Equal(got, want[:]) {
			f := fam
			if strings.HasPrefix(fam, "unparsable-tail") {
				f = "unparsable-tail" // one cause whatever precedes the tail
			}
			res.report("legacy-digest-mismatch/"+f+"/"+strings.Split(kind, "/")[0], "Tx.SignatureHash differs from the original algorithm ("+fam+", hash type "+kind+")", w)
		} else if strings.HasPrefix(fam, "unparsable-tail") {
			res.count("legacy_unparsable_tail_agree")
		}
		if k == 0 {
			res.sample(w)
		}
	}
}

func digestWitness(r *vlib.Rand, res *result) {
	t, _ := randTx(r, 40, 40)
	tx := toBtc(t, nil)
	for k := 0; k < 6; k++ {
		idx := r.Intn(len(t.In))
		sc, fam := randScriptCode(r)
		ht := randHashType(r)
		amount := randAmount(r)
		want := refsighash.WitnessV0(t, sc, amount, idx, ht)
		got, pan := recoverCall(func() []byte { return tx.WitnessSigHash(sc, uint64(amount), idx, int32(ht)) })
		res.count("digests")
		res.count("digests_bip143")
		res.key(want[:])
		kind := hashTypeKind(ht)
		if ht&0x1f == 3 && idx >= len(t.Out) {
			kind += "/out-of-range"
		}
		res.combo("bip143 " + fam + " " + kind)
		w := txWitness(t, nil)
		w["algo"], w["script_code"], w["input"], w["hash_type"], w["amount"] = "bip143", vlib.Hex(sc), idx, ht, uint64(amount)
		w["expected"], w["observed"] = vlib.Hex(want[:]), vlib.Hex(got)
		if pan != "" {
			res.report("panic/WitnessSigHash", "Tx.WitnessSigHash panics: "+pan, w)
			continue
		}
		if !bytes.Equal(got, want[:]) {
			res.report("bip143-digest-mismatch/"+kind, "Tx.WitnessSigHash differs from BIP143 (hash type "+kind+")", w)
		}
	}
}

type tapReq struct {
	idx   int
	ht    byte
	annex []byte
	sp    *refsighash.ScriptPath
}

func randTapReq(r *vlib.Rand, t *reftx.Tx, ht int) tapReq {
	q := tapReq{idx: r.Intn(len(t.In)), ht: byte(ht)}
	if ht < 0 {
		switch r.Intn(3) {
		case 0:
			q.ht = []byte{0, 1, 2, 3, 0x81, 0x82, 0x83}[r.Intn(7)]
		default:
			q.ht = byte(r.Intn(256))
		}
	}
	if r.Chance(1, 3) {
		q.annex = append([]byte{0x50}, r.Bytes(r.Intn(300))...)
	}
	if r.Bool() {
		sp := &refsighash.ScriptPath{CodeSepPos: 0xffffffff}
		if r.Bool() {
			sp.CodeSepPos = uint32(r.Intn(300))
		}
		if r.Chance(1, 10) {
			sp.CodeSepPos = r.U32()
		}
		sp.LeafHash = refsighash.TapLeafHash(0xc0, r.Bytes(r.Intn(80)))
		q.sp = sp
	}
	return q
}

func (q *tapReq) execdata() *btc.ScriptExecutionData {
	e := &btc.ScriptExecutionData{M_codeseparator_pos: 0xffffffff}
	if q.annex != nil {
		h := refsighash.AnnexHash(q.annex)
		e.M_annex_hash = h[:]
	}
	if q.sp != nil {
		e.M_tapleaf_hash = append([]byte{}, q.sp.LeafHash[:]...)
		e.M_codeseparator_pos = q.sp.CodeSepPos
		e.M_codeseparator_pos_init = true
	}
	return e
}

func (q *tapReq) describe(w map[string]interface{}) {
	w["algo"], w["input"], w["hash_type"] = "taproot", q.idx, q.ht
	if q.annex != nil {
		w["annex"] = vlib.Hex(q.annex)
	}
	if q.sp != nil {
		w["leaf_hash"], w["codesep_pos"] = vlib.Hex(q.sp.LeafHash[:]), q.sp.CodeSepPos
	}
}

func tapKind(q *tapReq) string {
	s := "keypath"
	if q.sp != nil {
		s = "scriptpath"
	}
	if q.annex != nil {
		s += "+annex"
	}
	return s
}

func digestTaproot(r *vlib.Rand, res *result, allTypes bool) {
	t, spent := randTx(r, 40, 40)
	tx := toBtc(t, spent)
	n := 6
	if allTypes {
		n = 256
	}
	for k := 0; k < n; k++ {
		ht := -1
		if allTypes {
			ht = k
		}
		q := randTapReq(r, t, ht)
		want, err := refsighash.Taproot(t, spent, q.idx, q.ht, q.annex, q.sp)
		got, pan := recoverCall(func() []byte { return tx.TaprootSigHash(q.execdata(), q.idx, q.ht, q.sp != nil) })
		res.count("digests")
		res.count("digests_taproot")
		w := txWitness(t, spent)
		q.describe(w)
		w["observed"] = vlib.Hex(got)
		if pan != "" {
			res.report("panic/TaprootSigHash", "Tx.TaprootSigHash panics: "+pan, w)
			continue
		}
		if err != nil {
			// no digest defined: record what gocoin hands to the signature check; whether a
			// signature over it is accepted is decided end-to-end (section C)
			why := "undefined-hash-type"
			if err == refsighash.ErrNoDigestSingle {
				why = "single-without-output"
			}
			res.combo("taproot no-digest " + why + " " + tapKind(&q))
			if isZero(got) && len(got) == 32 {
				res.count("taproot_no_digest_returns_32_zero_bytes/" + why)
			} else {
				res.count("taproot_no_digest_returns_other/" + why)
			}
			continue
		}
		res.key(want[:])
		res.combo(fmt.Sprintf("taproot %s %02x", tapKind(&q), q.ht))
		w["expected"] = vlib.Hex(want[:])
		if !bytes.Equal(got, want[:]) {
			res.report(fmt.Sprintf("taproot-digest-mismatch/%s/%02x", tapKind(&q), q.ht), "Tx.TaprootSigHash differs from BIP341/BIP342", w)
		}
	}
}

// digestBoundary: the CompactSize width changes (0xfc/0xfd) inside the three preimages, met on purpose: a transaction with
// 254..300 inputs and outputs, digests requested for the inputs around index 252 (legacy SIGHASH_SINGLE writes nIn+1 as
// a count), script codes of 252..254 and 0xffff..0x10000 bytes, for every base type with and without ANYONECANPAY.
func digestBoundary(r *vlib.Rand, res *result) {
	t, spent := randTx(r, 1, 1)
	nin, nout := 254+r.Intn(47), 254+r.Intn(47)
	t.In = make([]reftx.TxIn, nin)
	spent = make([]reftx.TxOut, nin)
	for i := range t.In {
		r.Fill(t.In[i].PrevHash[:])
		t.In[i].PrevIndex = uint32(r.Intn(5))
		t.In[i].ScriptSig = r.Bytes(r.Intn(4))
		t.In[i].Sequence = []uint32{0xffffffff, 0xfffffffe, 0, r.U32()}[r.Intn(4)]
		spent[i] = reftx.TxOut{Value: randAmount(r), PkScript: r.Bytes(1 + r.Intn(34))}
	}
	t.Out = make([]reftx.TxOut, nout)
	for i := range t.Out {
		t.Out[i] = reftx.TxOut{Value: randAmount(r), PkScript: r.Bytes(r.Intn(34))}
	}
	tx := toBtc(t, spent)
	scLens := []int{0, 1, 252, 253, 254, 0xffff, 0x10000}
	for _, idx := range []int{0, 250, 251, 252, 253, nin - 1} {
		for _, ht := range []uint32{1, 2, 3, 0x81, 0x82, 0x83} {
			sc := bytes.Repeat([]byte{0x51}, scLens[r.Intn(len(scLens))]) // OP_1 only: nothing to strip, every length parses
			amount := randAmount(r)
			wl := refsighash.Legacy(t, sc, idx, ht)
			ww := refsighash.WitnessV0(t, sc, amount, idx, ht)
			gl, pl := recoverCall(func() []byte { return tx.SignatureHash(sc, idx, int32(ht)) })
			gw, pw := recoverCall(func() []byte { return tx.WitnessSigHash(sc, uint64(amount), idx, int32(ht)) })
			q := tapReq{idx: idx, ht: byte(ht)}
			wt, terr := refsighash.Taproot(t, spent, idx, byte(ht), nil, nil)
			gt, pt := recoverCall(func() []byte { return tx.TaprootSigHash(q.execdata(), idx, byte(ht), false) })
			res.mu.Lock()
			res.Counters["digests"] += 3
			res.mu.Unlock()
			res.count("digests_boundary(inputs>=254,index~252)")
			res.combo(fmt.Sprintf("boundary idx%d %s sc%d", idx, hashTypeKind(ht), len(sc)))
			w := map[string]interface{}{"inputs": nin, "outputs": nout, "input": idx, "hash_type": ht, "script_code_len": len(sc), "amount": uint64(amount),
				"tx": vlib.Hex(t.Serialize(false))}
			for _, c := range []struct {
				algo      string
				want, got []byte
				pan       string
			}{{"legacy", wl[:], gl, pl}, {"bip143", ww[:], gw, pw}, {"taproot", wt[:], gt, pt}} {
				if c.algo == "taproot" && terr != nil {
					continue
				}
				res.key(c.want)
				if c.pan != "" || !bytes.Equal(c.want, c.got) {
					w2 := map[string]interface{}{"algo": c.algo, "expected": vlib.Hex(c.want), "observed": vlib.Hex(c.got), "panic": c.pan}
					for k, v := range w {
						w2[k] = v
					}
					res.report(c.algo+"-digest-mismatch/compactsize-boundary/"+hashTypeKind(ht), fmt.Sprintf("%s digest of input %d of a %d-in/%d-out transaction (script code %d bytes, hash type %s) differs from the reference", c.algo, idx, nin, nout, len(sc), hashTypeKind(ht)), w2)
				}
			}
		}
	}
}

func runDigests(r *vlib.Rand, n int, res *result) {
	digestBoundary(r, res)
	for res.Counters["digests"] < int64(n) {
		switch k := r.Intn(96); {
		case k < 45:
			digestLegacy(r, res)
		case k < 75:
			digestWitness(r, res)
		case k < 95:
			digestTaproot(r, res, false)
		default:
			digestTaproot(r, res, true) // every hash type byte 0..255 on one transaction
		}
	}
}

// ---------------------------------------------------------------------------------------------
// B. cache schedules: many mixed requests on one Tx object

type request struct {
	algo   byte // 'L', 'W', 'T'
	idx    int
	sc     []byte
	ht     uint32
	amount int64
	tap    tapReq
	want   []byte // nil: no digest defined / known divergence: issued but not compared
	label  string
}

func buildRequests(r *vlib.Rand, t *reftx.Tx, spent []reftx.TxOut, n int) []request {
	reqs := make([]request, n)
	for i := range reqs {
		q := &reqs[i]
		q.idx = r.Intn(len(t.In))
		switch r.Intn(5) {
		case 0:
			q.algo = 'L'
			var fam string
			q.sc, fam = randScriptCode(r)
			q.ht = hashTypeEdges[r.Intn(8)]
			if r.Chance(1, 4) {
				q.ht = randHashType(r)
			}
			if !strings.HasPrefix(fam, "unparsable-tail") {
				d := refsighash.Legacy(t, q.sc, q.idx, q.ht)
				q.want = d[:]
			}
			q.label = "legacy"
		case 1, 2:
			q.algo = 'W'
			q.sc, _ = randScriptCode(r)
			q.ht = hashTypeEdges[r.Intn(8)]
			if r.Chance(1, 4) {
				q.ht = randHashType(r)
			}
			q.amount = randAmount(r)
			d := refsighash.WitnessV0(t, q.sc, q.amount, q.idx, q.ht)
			q.want = d[:]
			q.label = "bip143"
		default:
			q.algo = 'T'
			q.tap = randTapReq(r, t, -1)
			if r.Chance(3, 4) {
				q.tap.ht = []byte{0, 1, 2, 3, 0x81, 0x82, 0x83}[r.Intn(7)]
			}
			q.idx = q.tap.idx
			if d, err := refsighash.Taproot(t, spent, q.tap.idx, q.tap.ht, q.tap.annex, q.tap.sp); err == nil {
				q.want = d[:]
			}
			q.label = "taproot"
		}
	}
	return reqs
}

func issue(tx *btc.Tx, q *request) []byte {
	switch q.algo {
	case 'L':
		return tx.SignatureHash(q.sc, q.idx, int32(q.ht))
	case 'W':
		return tx.WitnessSigHash(q.sc, uint64(q.amount), q.idx, int32(q.ht))
	}
	return tx.TaprootSigHash(q.tap.execdata(), q.tap.idx, q.tap.ht, q.tap.sp != nil)
}

func (q *request) witness(t *reftx.Tx, spent []reftx.TxOut, order []int, pos int, got []byte) map[string]interface{} {
	w := txWitness(t, spent)
	w["algo"], w["input"], w["hash_type"] = q.label, q.idx, q.ht
	if q.algo == 'T' {
		q.tap.describe(w)
	} else {
		w["script_code"] = vlib.Hex(q.sc)
		w["amount"] = uint64(q.amount)
	}
	w["expected"], w["observed"] = vlib.Hex(q.want), vlib.Hex(got)
	w["request_order"], w["position_in_order"] = order, pos
	return w
}

func runSchedules(r *vlib.Rand, n int, concurrent bool, res *result) {
	mode := "sequential"
	if concurrent {
		mode = "concurrent"
	}
	for s := 0; s < n; s++ {
		t, spent := randTx(r, 12, 12)
		reqs := buildRequests(r, t, spent, 50)
		tx := toBtc(t, spent)
		res.count("schedules_" + mode)
		if !concurrent {
			order := r.Perm(len(reqs))
			for pos, k := range order {
				q := &reqs[k]
				got, pan := recoverCall(func() []byte { return issue(tx, q) })
				res.count("schedule_requests_" + mode)
				res.count("digests")
				if pan != "" {
					res.report("panic/schedule/"+q.label, "digest request panics inside a schedule: "+pan, q.witness(t, spent, order, pos, nil))
					continue
				}
				if q.want != nil {
					res.key(q.want)
					if !bytes.Equal(got, q.want) {
						res.report("cache-schedule-mismatch/sequential/"+q.label, "a digest requested after other requests on the same Tx object differs from the cache-free reference", q.witness(t, spent, order, pos, got))
					}
				}
			}
			res.combo(fmt.Sprintf("sched seq first=%s ins=%d outs=%d", reqs[order[0]].label, min(len(t.In), 3), min(len(t.Out), 3)))
			continue
		}
		// one Tx object, or (every other schedule) three independent transactions hashed at the same time - what a node
		// does when it verifies several inputs / transactions on several cores: no digest may depend on what another
		// goroutine is hashing, on this object or on another one
		type objSet struct {
			t     *reftx.Tx
			spent []reftx.TxOut
			reqs  []request
			tx    *btc.Tx
		}
		sets := []objSet{{t, spent, reqs, tx}}
		if s%2 == 1 {
			for k := 0; k < 2; k++ {
				t2, spent2 := randTx(r, 12, 12)
				sets = append(sets, objSet{t2, spent2, buildRequests(r, t2, spent2, 50), toBtc(t2, spent2)})
			}
			res.count("schedules_concurrent_over_three_tx_objects")
		}
		var wg sync.WaitGroup
		orders := make([][]int, 8)
		for g := range orders {
			orders[g] = r.Perm(len(sets[g%len(sets)].reqs))
		}
		start := make(chan struct{})
		for g := 0; g < 8; g++ {
			wg.Add(1)
			go func(g int) {
				defer wg.Done()
				<-start
				o := &sets[g%len(sets)]
				for pos, k := range orders[g] {
					q := &o.reqs[k]
					got, pan := recoverCall(func() []byte { return issue(o.tx, q) })
					res.count("schedule_requests_" + mode)
					res.count("digests")
					if pan != "" {
						res.report("panic/schedule/"+q.label, "digest request panics inside a concurrent schedule: "+pan, q.witness(o.t, o.spent, orders[g], pos, nil))
						continue
					}
					if q.want != nil && !bytes.Equal(got, q.want) {
						what := "a digest requested concurrently with other requests on the same Tx object differs from the cache-free reference"
						if len(sets) > 1 {
							what = "a digest requested while other goroutines request digests (same and other Tx objects) differs from the cache-free reference"
						}
						res.report("cache-schedule-mismatch/concurrent/"+q.label, what, q.witness(o.t, o.spent, orders[g], pos, got))
					}
				}
			}(g)
		}
		close(start)
		wg.Wait()
		for _, o := range sets {
			for _, q := range o.reqs {
				if q.want != nil {
					res.key(q.want)
				}
			}
		}
		res.combo(fmt.Sprintf("sched conc ins=%d outs=%d", min(len(t.In), 3), min(len(t.Out), 3)))
	}
}

func min(a, b int) int {
	if a < b {
		return a
	}
	return b
}

// ---------------------------------------------------------------------------------------------
// C. end-to-end spends through script.VerifyTxScript with the independent signer

type keypair struct {
	sk   []byte
	d    *big.Int
	pub  []byte // compressed
	xpub []byte // x-only
}

func randKey(r *vlib.Rand) keypair {
	for {
		sk := r.Bytes(32)
		d := new(big.Int).SetBytes(sk)
		if d.Sign() == 0 || d.Cmp(refec.N) >= 0 {
			continue
		}
		x, ok := refec.XOnlyPubKey(sk)
		if !ok {
			continue
		}
		return keypair{sk: sk, d: d, pub: refec.ScalarBaseMult(d).SerializeCompressed(), xpub: x}
	}
}

func ecdsaSig(k keypair, digest [32]byte, ht byte, padTo int) []byte {
	rr, ss, _ := refec.ECDSASignRFC6979(k.d, digest[:], false)
	sig := refec.EncodeDER(rr, ss)
	if padTo > 0 {
		// zero-padded integers: not strict DER, accepted by the pre-BIP66 (lax) parser
		rb := rr.Bytes()
		sb := ss.Bytes()
		for 6+len(rb)+len(sb)+1 < padTo || rb[0] >= 0x80 {
			rb = append([]byte{0}, rb...)
		}
		if sb[0] >= 0x80 {
			sb = append([]byte{0}, sb...)
		}
		sig = refec.EncodeDERRaw(rb, sb)
	}
	return append(sig, ht)
}

func push(d []byte) []byte { return refsighash.PushData(d) }

func cat(parts ...[]byte) []byte { return bytes.Join(parts, nil) }

func safeVerify(spk []byte, tx *btc.Tx, idx int, amount uint64, flags uint32) (ok bool, pan string) {
	defer func() {
		if r := recover(); r != nil {
			pan = fmt.Sprint(r)
		}
	}()
	return script.VerifyTxScript(spk, &script.SigChecker{Tx: tx, Idx: idx, Amount: amount}, flags), ""
}

const (
	flagsLegacy  = 0
	flagsP2SH    = script.VER_P2SH
	flagsWitness = script.VER_P2SH | script.VER_WITNESS
	flagsTaproot = script.VER_P2SH | script.VER_WITNESS | script.VER_TAPROOT
)

func spendWitness(t *reftx.Tx, spent []reftx.TxOut, idx int, extra map[string]interface{}) map[string]interface{} {
	w := txWitness(t, spent)
	w["input"] = idx
	for k, v := range extra {
		w[k] = v
	}
	return w
}

// expect runs VerifyTxScript on the finished spend and reports when the verdict differs.
func expect(res *result, class, what string, want bool, t *reftx.Tx, spent []reftx.TxOut, idx int, flags uint32, extra map[string]interface{}) {
	tx := toBtc(t, spent)
	got, pan := safeVerify(spent[idx].PkScript, tx, idx, uint64(spent[idx].Value), flags)
	res.count("spends")
	w := spendWitness(t, spent, idx, extra)
	w["flags"], w["expected_verdict"], w["observed_verdict"] = flags, want, got
	if pan != "" {
		res.report("panic/VerifyTxScript/"+class, "script.VerifyTxScript panics: "+pan, w)
		return
	}
	if got != want {
		res.report(class, what, w)
	}
}

// legacy spends: P2PK-like scripts with code separators and embedded signatures
func spendLegacy(r *vlib.Rand, res *result) {
	t, spent := randTx(r, 6, 6)
	idx := r.Intn(len(t.In))
	k := randKey(r)
	ht := byte(randHashType(r))
	if r.Chance(1, 2) {
		ht = []byte{1, 2, 3, 0x81, 0x82, 0x83}[r.Intn(6)]
	}
	variant := r.Intn(6)
	pk := push(k.pub)
	var spk, code []byte // code = script code the reference hashes (before FindAndDelete)
	name := ""
	embed := false
	switch variant {
	case 0:
		name = "p2pk"
		spk = cat(pk, []byte{0xac})
		code = spk
	case 1:
		name = "codesep-before"
		spk = cat([]byte{0x61, opCodeSep}, pk, []byte{0xac})
		code = cat(pk, []byte{0xac})
	case 2:
		name = "codesep-after"
		spk = cat(pk, []byte{0xad, opCodeSep, 0x51})
		code = spk // the serializer removes the separator
	case 3:
		name = "two-codeseps"
		spk = cat([]byte{opCodeSep, 0x61, opCodeSep}, pk, []byte{0xad, opCodeSep, 0x51, opCodeSep})
		code = cat(pk, []byte{0xad, opCodeSep, 0x51, opCodeSep})
	default:
		name = "embedded-sig"
		embed = true
	}
	kind := hashTypeKind(uint32(ht))
	if !embed {
		spent[idx].PkScript = spk
		digest := refsighash.Legacy(t, code, idx, uint32(ht))
		sig := ecdsaSig(k, digest, ht, 0)
		t.In[idx].ScriptSig = push(sig)
		res.combo("spend legacy " + name + " " + kind)
		expect(res, "legacy-spend-rejected/"+name+"/"+kind, "a legacy spend signed over the reference digest is rejected", true, t, spent, idx, flagsLegacy,
			map[string]interface{}{"digest": vlib.Hex(digest[:]), "variant": name})
		// the same signature over a different hash type byte must fail (the digest commits to it)
		if r.Chance(1, 3) {
			bad := append([]byte{}, sig...)
			bad[len(bad)-1] ^= 0x01
			if refsighash.Legacy(t, code, idx, uint32(bad[len(bad)-1])) != digest {
				t.In[idx].ScriptSig = push(bad)
				expect(res, "legacy-spend-wrong-hashtype-accepted/"+name, "a signature made for another hash type is accepted", false, t, spent, idx, flagsLegacy,
					map[string]interface{}{"variant": name})
			}
		}
		return
	}
	// FindAndDelete: the scriptPubKey itself contains the push of the signature that is checked:
	//   [<sig> DROP] <sig> <pk> CHECKSIG      (digest over the script with the pushes removed)
	twice := r.Bool()
	padded := r.Chance(1, 3) // signature > 75 bytes: its push is PUSHDATA1
	tail := cat(pk, []byte{0xac})
	stripped := tail
	if twice {
		stripped = cat([]byte{0x75}, tail)
	}
	digest := refsighash.Legacy(t, stripped, idx, uint32(ht))
	padTo := 0
	if padded {
		padTo = 80 + r.Intn(40)
	}
	sig := ecdsaSig(k, digest, ht, padTo)
	spk = cat(push(sig), tail)
	if twice {
		spk = cat(push(sig), []byte{0x75}, push(sig), tail)
	}
	spent[idx].PkScript = spk
	t.In[idx].ScriptSig = nil
	if d2, n := refsighash.LegacyForSig(t, spk, idx, sig); d2 != digest || n == 0 {
		res.count("harness_self_check_failed")
		return
	}
	sub := "direct-push"
	if padded {
		sub = "pushdata1"
		// control: the padded signature itself verifies when nothing has to be deleted
		c := t.Clone()
		cs := append([]reftx.TxOut{}, spent...)
		cs[idx].PkScript = cat(pk, []byte{0xac})
		cd := refsighash.Legacy(c, cs[idx].PkScript, idx, uint32(ht))
		c.In[idx].ScriptSig = push(ecdsaSig(k, cd, ht, padTo))
		expect(res, "legacy-spend-rejected/zero-padded-der-signature", "a zero-padded (lax DER) signature is rejected without DERSIG", true, c, cs, idx, flagsLegacy, nil)
	}
	res.combo("spend legacy embedded-sig " + sub + " " + kind)
	expect(res, "findanddelete/"+sub+"-signature-not-removed", "a spend whose script contains the push of the checked signature is rejected: the signature push is not removed before hashing", true, t, spent, idx, flagsLegacy,
		map[string]interface{}{"digest": vlib.Hex(digest[:]), "signature": vlib.Hex(sig), "occurrences": map[bool]int{false: 1, true: 2}[twice]})
}

// P2WSH spends (BIP143): script code from the last executed separator, later separators stay
func spendWitnessV0(r *vlib.Rand, res *result) {
	t, spent := randTx(r, 6, 6)
	idx := r.Intn(len(t.In))
	k := randKey(r)
	ht := byte(randHashType(r))
	if r.Chance(1, 2) {
		ht = []byte{1, 2, 3, 0x81, 0x82, 0x83}[r.Intn(6)]
	}
	pk := push(k.pub)
	var ws, code []byte
	name := ""
	multisig, twoSigs := false, false
	switch r.Intn(8) {
	case 4:
		name, multisig = "multisig-1of1", true
		ws = cat([]byte{0x51}, pk, []byte{0x51, 0xae})
		code = ws
	case 5:
		// the script code of CHECKMULTISIG starts behind the last executed separator, like that of CHECKSIG
		name, multisig = "codesep-before-multisig", true
		ws = cat([]byte{0x61, opCodeSep, 0x51}, pk, []byte{0x51, 0xae})
		code = cat([]byte{0x51}, pk, []byte{0x51, 0xae})
	case 6:
		name, multisig = "multisig-codesep-after", true
		ws = cat([]byte{0x51}, pk, []byte{0x51, 0xaf, opCodeSep, 0x51}) // CHECKMULTISIGVERIFY CODESEP 1
		code = ws
	case 7:
		// <pk> CHECKSIGVERIFY CODESEP 1 <pk> 1 CHECKMULTISIG: the first signature covers the whole script, the second what
		// follows the separator
		name, multisig, twoSigs = "checksigverify-codesep-multisig", true, true
		ws = cat(pk, []byte{0xad, opCodeSep, 0x51}, pk, []byte{0x51, 0xae})
		code = cat([]byte{0x51}, pk, []byte{0x51, 0xae})
	case 0:
		name = "plain"
		ws = cat(pk, []byte{0xac})
		code = ws
	case 1:
		name = "codesep-before"
		ws = cat([]byte{0x61, opCodeSep}, pk, []byte{0xac})
		code = cat(pk, []byte{0xac})
	case 2:
		name = "codesep-after"
		ws = cat(pk, []byte{0xad, opCodeSep, 0x51})
		code = ws // BIP143 keeps later separators
	default:
		name = "unexecuted-codesep"
		ws = cat([]byte{0x00, 0x63, opCodeSep, 0x68}, pk, []byte{0xac}) // 0 IF CODESEP ENDIF <pk> CHECKSIG
		code = ws
	}
	prog := sha256.Sum256(ws)
	spent[idx].PkScript = cat([]byte{0x00, 0x20}, prog[:])
	t.In[idx].ScriptSig = nil
	digest := refsighash.WitnessV0(t, code, spent[idx].Value, idx, uint32(ht))
	sig := ecdsaSig(k, digest, ht, 0)
	t.In[idx].Witness = [][]byte{sig, ws}
	if multisig {
		t.In[idx].Witness = [][]byte{{}, sig, ws} // empty dummy element first
		if twoSigs {
			d1 := refsighash.WitnessV0(t, ws, spent[idx].Value, idx, uint32(ht))
			t.In[idx].Witness = [][]byte{{}, sig, ecdsaSig(k, d1, ht, 0), ws}
		}
	}
	kind := hashTypeKind(uint32(ht))
	if ht&0x1f == 3 && idx >= len(t.Out) {
		kind += "/out-of-range"
	}
	res.combo("spend p2wsh " + name + " " + kind)
	expect(res, "bip143-spend-rejected/"+name+"/"+kind, "a P2WSH spend signed over the BIP143 reference digest is rejected", true, t, spent, idx, flagsWitness,
		map[string]interface{}{"digest": vlib.Hex(digest[:]), "variant": name})
	if r.Chance(1, 3) {
		// amount is committed: a different spent amount must invalidate the signature
		s2 := append([]reftx.TxOut{}, spent...)
		s2[idx].Value ^= 1
		expect(res, "bip143-spend-wrong-amount-accepted", "a P2WSH signature is accepted for a different spent amount", false, t, s2, idx, flagsWitness, nil)
	}
}

// taproot spends: key path and script path, annex, code separator positions, "no digest" forgeries
func spendTaproot(r *vlib.Rand, res *result, forceNoDigest bool) {
	t, spent := randTx(r, 6, 6)
	idx := r.Intn(len(t.In))
	k := randKey(r)
	scriptPath := r.Bool()
	var annex []byte
	if r.Chance(1, 3) {
		annex = append([]byte{0x50}, r.Bytes(r.Intn(40))...)
	}
	// hash type
	ht := []byte{0, 1, 2, 3, 0x81, 0x82, 0x83}[r.Intn(7)]
	noDigest := ""
	if forceNoDigest {
		if r.Bool() {
			for {
				ht = byte(r.Intn(256))
				if !refsighash.TaprootHashTypeDefined(ht) {
					break
				}
			}
			if r.Chance(1, 4) {
				ht = []byte{0x04, 0x80, 0x84, 0xff, 0x10, 0x7f}[r.Intn(6)]
			}
			noDigest = "undefined-hash-type"
		} else {
			ht = []byte{0x03, 0x83}[r.Intn(2)]
			if len(t.Out) >= len(t.In) {
				t.Out = t.Out[:len(t.In)-1]
			}
			idx = len(t.Out) + r.Intn(len(t.In)-len(t.Out))
			noDigest = "single-without-output"
		}
	} else if ht&3 == 3 && idx >= len(t.Out) {
		idx = 0
		if len(t.Out) == 0 {
			ht = 1
		}
	}
	t.In[idx].ScriptSig = nil

	var sp *refsighash.ScriptPath
	var tapscript, control []byte
	name := "keypath"
	if !scriptPath {
		spent[idx].PkScript = cat([]byte{0x51, 0x20}, k.xpub)
	} else {
		pk := push(k.xpub)
		pos := uint32(0xffffffff)
		switch r.Intn(7) {
		case 5, 6:
			// the position is a 32-bit opcode count; tapscript has neither a size nor an opcode limit
			n := []int{65535, 65536, 65537, 65613, 70000, 131072}[r.Intn(6)]
			name = fmt.Sprintf("scriptpath/codesep@%d", n)
			tapscript = cat(bytes.Repeat([]byte{0x61}, n), []byte{opCodeSep}, pk, []byte{0xac})
			pos = uint32(n)
		case 0:
			name = "scriptpath/plain"
			tapscript = cat(pk, []byte{0xac})
		case 1:
			name = "scriptpath/codesep@0"
			tapscript = cat([]byte{opCodeSep}, pk, []byte{0xac})
			pos = 0
		case 2:
			name = "scriptpath/codesep@1"
			tapscript = cat(pk, []byte{opCodeSep, 0xac})
			pos = 1
		case 3:
			name = "scriptpath/codesep@3-after-unexecuted"
			// 0 IF CODESEP ENDIF CODESEP <pk> CHECKSIG : positions 0 1 2 3 4 ...; the executed one is at 4
			tapscript = cat([]byte{0x00, 0x63, opCodeSep, 0x68, opCodeSep}, pk, []byte{0xac})
			pos = 4
			name = "scriptpath/codesep@4-after-unexecuted"
		default:
			name = "scriptpath/two-codeseps"
			tapscript = cat([]byte{opCodeSep, 0x61, opCodeSep}, pk, []byte{0xac})
			pos = 2
		}
		internal := randKey(r)
		leaf := refsighash.TapLeafHash(0xc0, tapscript)
		// the leaf sits 0..3 levels deep in a tree: the digest commits to the leaf hash, not to the root the
		// commitment check arrives at
		root := append([]byte{}, leaf[:]...)
		var siblings []byte
		depth := r.Intn(4)
		for d := 0; d < depth; d++ {
			sib := r.Bytes(32)
			siblings = append(siblings, sib...)
			if bytes.Compare(root, sib) < 0 {
				root = refec.TaggedHash("TapBranch", root, sib)
			} else {
				root = refec.TaggedHash("TapBranch", sib, root)
			}
		}
		if depth > 0 {
			name += fmt.Sprintf("/depth%d", depth)
		}
		tw := refec.TapTweakHash(internal.xpub, root)
		q, why := refec.TaprootOutputKey(internal.xpub, tw)
		if why != "" {
			res.count("harness_tweak_failed")
			return
		}
		parity := byte(q.Y.Bit(0))
		control = cat([]byte{0xc0 | parity}, internal.xpub, siblings)
		spent[idx].PkScript = cat([]byte{0x51, 0x20}, q.XOnly())
		sp = &refsighash.ScriptPath{LeafHash: leaf, CodeSepPos: pos}
	}
	if annex != nil {
		name += "+annex"
	}
	finish := func(sig []byte) {
		var w [][]byte
		if scriptPath {
			w = [][]byte{sig, tapscript, control}
		} else {
			w = [][]byte{sig}
		}
		if annex != nil {
			w = append(w, annex)
		}
		t.In[idx].Witness = w
	}
	aux := r.Bytes(32)
	want, err := refsighash.Taproot(t, spent, idx, ht, annex, sp)
	if noDigest == "" {
		if err != nil {
			res.count("harness_self_check_failed")
			return
		}
		s64, e := refec.SchnorrSign(k.sk, want[:], aux)
		if e != nil {
			res.count("harness_sign_failed")
			return
		}
		sig := s64
		if ht != 0 {
			sig = append(append([]byte{}, s64...), ht)
		}
		finish(sig)
		res.combo(fmt.Sprintf("spend taproot %s %02x", name, ht))
		expect(res, fmt.Sprintf("taproot-spend-rejected/%s/%02x", name, ht), "a taproot spend signed over the BIP341/342 reference digest is rejected", true, t, spent, idx, flagsTaproot,
			map[string]interface{}{"digest": vlib.Hex(want[:]), "variant": name})
		if r.Chance(1, 4) && annex != nil {
			// the annex is committed: another annex must invalidate the signature
			annex = append([]byte{0x50}, append(annex[1:], 0x01)...)
			finish(sig)
			expect(res, "taproot-spend-other-annex-accepted", "a taproot signature is accepted with a different annex", false, t, spent, idx, flagsTaproot, nil)
		}
		return
	}
	// No digest is defined. Forge a BIP340 signature over whatever digest gocoin computes for this
	// request; the signature check must fail all the same.
	if err == nil {
		res.count("harness_self_check_failed")
		return
	}
	q := tapReq{idx: idx, ht: ht, annex: annex, sp: sp}
	btx := toBtc(t, spent)
	used, pan := recoverCall(func() []byte { return btx.TaprootSigHash(q.execdata(), idx, ht, sp != nil) })
	if pan != "" || len(used) != 32 {
		// no digest came back: nothing to forge over; the check cannot succeed through this path
		res.count("no_digest_no_value_returned")
		used = make([]byte, 32)
	}
	s64, e := refec.SchnorrSign(k.sk, used, aux)
	if e != nil {
		res.count("harness_sign_failed")
		return
	}
	finish(append(append([]byte{}, s64...), ht))
	res.count("no_digest_forgeries")
	pathName := "keypath"
	if scriptPath {
		pathName = "scriptpath"
	}
	res.combo(fmt.Sprintf("forgery %s %s %02x", noDigest, name, ht))
	zero := "zero-digest"
	if !isZero(used) {
		zero = "other-digest"
	}
	expect(res, "no-digest-signature-accepted/"+noDigest+"/"+pathName+"/"+zero,
		"BIP341 defines no digest here ("+noDigest+"), yet a signature over the value returned by Tx.TaprootSigHash ("+zero+") makes VerifyTxScript succeed", false, t, spent, idx, flagsTaproot,
		map[string]interface{}{"digest_used_by_gocoin": vlib.Hex(used), "hash_type": ht, "variant": name})
}

func runSpends(r *vlib.Rand, n int, res *result) {
	for i := 0; i < n; i++ {
		switch r.Intn(10) {
		case 0, 1, 2:
			spendLegacy(r, res)
		case 3, 4:
			spendWitnessV0(r, res)
		case 5, 6, 7:
			spendTaproot(r, res, false)
		default:
			spendTaproot(r, res, true)
		}
	}
}

// ---------------------------------------------------------------------------------------------
// child / parent

func child(args []string) {
	// child <mode> <seed> <part> <n> <outfile>
	mode := args[0]
	seed, _ := strconv.ParseInt(args[1], 10, 64)
	part, _ := strconv.Atoi(args[2])
	n, _ := strconv.Atoi(args[3])
	out := args[4]
	script.DBG_ERR = false
	r := vlib.NewRand(uint64(seed)).Fork(fmt.Sprintf("C02/%s/%d", mode, part))
	res := newResult()
	switch mode {
	case "digest":
		runDigests(r, n, res)
	case "sched-seq":
		runSchedules(r, n, false, res)
	case "sched-conc":
		runSchedules(r, n, true, res)
	case "spend":
		runSpends(r, n, res)
	case "spend-conc":
		// the same end-to-end spends from six goroutines at once (a node verifies the inputs of a block on several cores):
		// the digests computed inside VerifyTxScript (tapleaf / tapbranch / sighash hashers, per-tx caches) must not
		// depend on what the other goroutines hash
		var wg sync.WaitGroup
		for g := 0; g < 6; g++ {
			wg.Add(1)
			rg := r.Fork(fmt.Sprintf("g%d", g))
			go func() {
				defer wg.Done()
				runSpends(rg, n/6, res)
			}()
		}
		wg.Wait()
		res.count("spend_batches_run_by_six_goroutines")
	}
	res.Keys = vlib.Hex(res.keys.Bytes())
	for k := range res.combos {
		res.Combos = append(res.Combos, k)
	}
	b, _ := json.Marshal(res)
	os.WriteFile(out, b, 0o644)
}

type job struct {
	mode string
	part int
	n    int
	race bool
}

func main() {
	if len(os.Args) > 1 && os.Args[1] == "child" {
		child(os.Args[2:])
		return
	}
	run := vlib.Start("C02", "differential")

	// calibration of the oracles: failure => BROKEN (exit 2), never a violation
	if _, err := reftx.Calibrate(testDir); err != nil {
		fmt.Printf("BROKEN property=C02 reftx calibration failed: %v\n", err)
		os.Exit(2)
	}
	cst, err := refsighash.Calibrate(testDir)
	if err != nil {
		fmt.Printf("BROKEN property=C02 refsighash calibration failed: %v\n", err)
		os.Exit(2)
	}
	run.Extra("calibration_refsighash", cst)
	if rep, err := refec.Calibrate("/repo/lib"); err != nil {
		fmt.Printf("BROKEN property=C02 refec (signer) calibration failed: %v\n", err)
		os.Exit(2)
	} else {
		_ = rep
	}

	bindir := os.Getenv("VERIF_BIN_DIR")
	if bindir == "" {
		bindir = vlib.Root + "/bin"
	}
	plain := bindir + "/c02.main"
	race := bindir + "/c02.race"
	if _, err := os.Stat(race); err != nil {
		fmt.Println("BROKEN property=C02 race variant binary missing:", race)
		os.Exit(2)
	}
	var jobs []job
	parts := 8
	for p := 0; p < parts; p++ {
		jobs = append(jobs, job{"digest", p, run.N(60000, 2000000) / parts, false})
		jobs = append(jobs, job{"sched-seq", p, run.N(800, 20000) / parts, false})
		jobs = append(jobs, job{"spend", p, run.N(2400, 60000) / parts, false})
	}
	cparts := 4
	for p := 0; p < cparts; p++ {
		jobs = append(jobs, job{"sched-conc", p, run.N(200, 20000) / cparts, true})
	}
	for p := 0; p < 2; p++ {
		jobs = append(jobs, job{"spend-conc", p, run.N(900, 24000) / 2, true})
	}
	tmp, _ := os.MkdirTemp("", "c02")
	defer os.RemoveAll(tmp)
	classes := map[string]int64{}
	combos := map[string]bool{}
	var mu sync.Mutex
	vlib.Parallel(len(jobs), 12, func(i int) {
		j := jobs[i]
		out := filepath.Join(tmp, fmt.Sprintf("res%d.json", i))
		bin := plain
		env := []string{"GOTRACEBACK=all"}
		if j.race {
			bin = race
			env = append(env, "GORACE=halt_on_error=0 exitcode=66")
		}
		args := []string{"child", j.mode, fmt.Sprint(run.Seed), fmt.Sprint(j.part), fmt.Sprint(j.n), out}
		cr := vlib.RunChild(bin, args, env, nil, 30*time.Minute)
		desc := map[string]interface{}{"bin": bin, "args": args}
		if cr.TimedOut {
			run.Inconclusive("worker watchdog fired %v", desc)
			return
		}
		outs := string(cr.Out)
		mu.Lock()
		defer mu.Unlock()
		if strings.Contains(outs, "WARNING: DATA RACE") {
			for _, rr := range vlib.ParseRaces(outs, "github.com/piotrnar/gocoin/") {
				d := map[string]interface{}{"child": desc, "report": rr.Block, "occurrences": rr.N}
				run.Violation("race:"+rr.Sig, "data race between concurrent digest requests: "+rr.Sig, d)
				classes["race:"+rr.Sig] += int64(rr.N)
			}
		}
		b, err := os.ReadFile(out)
		if err != nil {
			desc["output_tail"] = vlib.Tail(cr.Out, 3000)
			run.Violation("worker-died/"+j.mode, fmt.Sprintf("worker died (exit %d %s) before writing its result", cr.ExitCode, cr.Signal), desc)
			return
		}
		var res result
		if json.Unmarshal(b, &res) != nil {
			run.Inconclusive("unreadable worker result %v", desc)
			return
		}
		for k, v := range res.Counters {
			run.Count(k, v)
		}
		for k, v := range res.Classes {
			classes[k] += v
		}
		for _, c := range res.Combos {
			combos[c] = true
			run.Distinct("request_kinds", c)
		}
		kb := vlib.UnHex(res.Keys)
		for o := 0; o+8 <= len(kb); o += 8 {
			run.DistinctBytes("reference_digests", kb[o:o+8])
		}
		for _, f := range res.Findings {
			f.Witness["seed"], f.Witness["mode"], f.Witness["part"] = run.Seed, j.mode, j.part
			run.Violation(f.Class, f.What, f.Witness)
		}
		for _, s := range res.Samples {
			run.Sample(s)
		}
		if j.race {
			run.Count("children_race_build", 1)
		}
	})
	run.Extra("disagreement_classes_counted", classes)
	ks := make([]string, 0, len(classes))
	for k := range classes {
		ks = append(ks, k)
	}
	sort.Strings(ks)
	for _, k := range ks {
		fmt.Printf("  class %-70s %d\n", k, classes[k])
	}
	if run.Get("harness_self_check_failed")+run.Get("harness_sign_failed")+run.Get("harness_tweak_failed") > 0 {
		run.Inconclusive("harness self checks failed %d times", run.Get("harness_self_check_failed")+run.Get("harness_sign_failed")+run.Get("harness_tweak_failed"))
	}
	if run.Get("schedules_concurrent") == 0 || run.Get("no_digest_forgeries") == 0 || run.Get("spends") == 0 {
		run.Inconclusive("a section of the check did not run (concurrent schedules %d, forgeries %d, spends %d)", run.Get("schedules_concurrent"), run.Get("no_digest_forgeries"), run.Get("spends"))
	}
	run.Assume("reference digests = verif/ref/refsighash (500 Core vectors, tx_valid.json digests and signatures, BIP341 wallet vectors, hand-derived BIP342 layouts)")
	run.Assume("unparsable script-code tails are hashed as Core's CTransactionSignatureSerializer does (declared length = full length, body ends where the failed GetOp left the iterator); no Core vector covers this, it is derived from interpreter.cpp")
	run.Assume("signatures are made by verif/ref/refec (independent of gocoin); zero-padded DER integers are taken to be accepted by Bitcoin's pre-BIP66 lax parser")
	os.RemoveAll(tmp) // Finish exits the process: deferred calls do not run
	run.Finish("each case = one digest request (Tx.SignatureHash / WitnessSigHash / TaprootSigHash) compared with the cache-free reference, alone or inside a 50-request schedule on one Tx object (sequential, and 8 goroutines under -race), plus end-to-end spends through VerifyTxScript; distinct_nontrivial = distinct reference digests",
		"digests", "reference_digests", run.N(10000, 1000000))
}
