package main

import (
	"github.com/piotrnar/gocoin/lib/btc"
	"verif/lib/vlib"
	"verif/ref/reftx"
)

// ---------------------------------------------------------------------------------------------
// random transactions and their btc.Tx twin (built field by field, not through the decoder)

func randTx(r *vlib.Rand, maxIn, maxOut int) (*reftx.Tx, []reftx.TxOut) {
	t := &reftx.Tx{Version: r.U32(), LockTime: r.U32()}
	switch r.Intn(4) {
	case 0:
		t.Version = 1
	case 1:
		t.Version = 2
	}
	if r.Chance(1, 3) {
		t.LockTime = 0
	}
	nin := 1 + r.Intn(3)
	if r.Chance(1, 5) {
		nin = 1 + r.Intn(maxIn)
	}
	nout := r.Intn(4)
	if r.Chance(1, 5) {
		nout = r.Intn(maxOut + 1)
	}
	if r.Chance(1, 40) {
		nin, nout = []int{252, 253, 254}[r.Intn(3)], []int{0, 252, 253}[r.Intn(3)] // CompactSize boundary of the counts
	}
	t.In = make([]reftx.TxIn, nin)
	spent := make([]reftx.TxOut, nin)
	for i := range t.In {
		r.Fill(t.In[i].PrevHash[:])
		t.In[i].PrevIndex = uint32(r.Intn(5))
		if r.Chance(1, 8) {
			t.In[i].PrevIndex = r.U32()
		}
		t.In[i].ScriptSig = r.Bytes(r.Intn(30))
		t.In[i].Sequence = []uint32{0xffffffff, 0xfffffffe, 0, 1, r.U32()}[r.Intn(5)]
		spent[i] = reftx.TxOut{Value: randAmount(r), PkScript: r.Bytes(randScriptLen(r))}
	}
	t.Out = make([]reftx.TxOut, nout)
	for i := range t.Out {
		t.Out[i] = reftx.TxOut{Value: randAmount(r), PkScript: r.Bytes(randScriptLen(r))}
	}
	return t, spent
}

func randAmount(r *vlib.Rand) int64 {
	switch r.Intn(8) {
	case 0:
		return 0
	case 1:
		return 2100000000000000
	case 2:
		return int64(^uint64(0) >> 1)
	case 3:
		return -1 // 0xffffffffffffffff on the wire
	}
	return int64(r.U64() >> uint(r.Intn(60)))
}

func randScriptLen(r *vlib.Rand) int {
	switch r.Intn(12) {
	case 0:
		return 0
	case 1:
		return []int{252, 253, 254, 255, 256, 520}[r.Intn(6)]
	case 2:
		return 34
	}
	return r.Intn(60)
}

func toBtc(t *reftx.Tx, spent []reftx.TxOut) *btc.Tx {
	tx := &btc.Tx{Version: t.Version, Lock_time: t.LockTime}
	for i := range t.In {
		in := &btc.TxIn{ScriptSig: append([]byte{}, t.In[i].ScriptSig...), Sequence: t.In[i].Sequence}
		in.Input.Hash = t.In[i].PrevHash
		in.Input.Vout = t.In[i].PrevIndex
		tx.TxIn = append(tx.TxIn, in)
	}
	for i := range t.Out {
		tx.TxOut = append(tx.TxOut, &btc.TxOut{Value: uint64(t.Out[i].Value), Pk_script: append([]byte{}, t.Out[i].PkScript...)})
	}
	if t.HasWitness() {
		tx.SegWit = make([][][]byte, len(t.In))
		for i := range t.In {
			for _, it := range t.In[i].Witness {
				tx.SegWit[i] = append(tx.SegWit[i], append([]byte{}, it...))
			}
		}
	}
	tx.AllocVerVars()
	if spent != nil {
		for i := range spent {
			tx.Spent_outputs = append(tx.Spent_outputs, &btc.TxOut{Value: uint64(spent[i].Value), Pk_script: append([]byte{}, spent[i].PkScript...)})
		}
	}
	raw := t.Serialize(true)
	tx.SetHash(raw)
	return tx
}

// ---------------------------------------------------------------------------------------------
// script codes

const opCodeSep = 0xab

func pushOp(r *vlib.Rand, data []byte) []byte {
	n := len(data)
	switch {
	case n < 76 && !r.Chance(1, 10):
		return append([]byte{byte(n)}, data...)
	case n < 256 && !r.Chance(1, 10):
		return append([]byte{0x4c, byte(n)}, data...)
	case n < 65536 && !r.Chance(1, 10):
		return append([]byte{0x4d, byte(n), byte(n >> 8)}, data...)
	}
	return append([]byte{0x4e, byte(n), byte(n >> 8), byte(n >> 16), byte(n >> 24)}, data...)
}

// randParsable builds a script in which every opcode parses. sepNum/sepDen = frequency of
// OP_CODESEPARATOR among the opcodes.
func randParsable(r *vlib.Rand, nops int, sepNum, sepDen int) []byte {
	var s []byte
	for i := 0; i < nops; i++ {
		switch {
		case r.Chance(sepNum, sepDen):
			s = append(s, opCodeSep)
		case r.Chance(1, 3):
			d := r.Bytes(r.Intn(40))
			if r.Chance(1, 3) {
				for k := range d {
					if r.Chance(1, 3) {
						d[k] = opCodeSep // separator bytes inside push data must survive
					}
				}
			}
			s = append(s, pushOp(r, d)...)
		case r.Chance(1, 20):
			s = append(s, pushOp(r, r.Bytes(76+r.Intn(300)))...)
		default:
			op := byte(0x4f + r.Intn(0x100-0x4f))
			if op == opCodeSep && sepNum == 0 {
				op = 0xac
			}
			s = append(s, op)
		}
	}
	return s
}

// unparsableTail returns a few bytes that Core's GetOp refuses.
func unparsableTail(r *vlib.Rand) []byte {
	switch r.Intn(7) {
	case 0:
		n := 2 + r.Intn(74)
		return append([]byte{byte(n)}, r.Bytes(r.Intn(n))...) // direct push short of data
	case 1:
		return []byte{0x4c} // PUSHDATA1 without length
	case 2:
		n := 1 + r.Intn(255)
		return append([]byte{0x4c, byte(n)}, r.Bytes(r.Intn(n))...)
	case 3:
		return []byte{0x4d, byte(r.U32())} // PUSHDATA2 with half a length
	case 4:
		n := 1 + r.Intn(600)
		return append([]byte{0x4d, byte(n), byte(n >> 8)}, r.Bytes(r.Intn(n))...)
	case 5:
		return append([]byte{0x4e}, r.Bytes(r.Intn(4))...)
	default:
		return append([]byte{0x4e, 0xff, 0xff, 0xff, byte(r.Intn(256))}, r.Bytes(r.Intn(20))...)
	}
}

// randScriptCode returns a script code and its family name.
func randScriptCode(r *vlib.Rand) ([]byte, string) {
	switch r.Intn(12) {
	case 0:
		return nil, "empty"
	case 1, 2, 3:
		return randParsable(r, 1+r.Intn(12), 0, 1), "parsable/no-codesep"
	case 4, 5, 6:
		return randParsable(r, 1+r.Intn(14), 1, 4), "parsable/codesep"
	case 7:
		n := 1 + r.Intn(6)
		s := make([]byte, n)
		for i := range s {
			s[i] = opCodeSep
		}
		if r.Bool() {
			s = append(s, 0xac)
		}
		if r.Bool() {
			s = append([]byte{0x51}, s...)
		}
		return s, "parsable/codesep"
	case 8:
		return randParsable(r, 60+r.Intn(400), 1, 10), "parsable/codesep" // > 252 bytes: 3-byte length prefix
	case 9:
		return append(randParsable(r, r.Intn(8), 0, 1), unparsableTail(r)...), "unparsable-tail/no-codesep"
	case 10:
		s := append(randParsable(r, 1+r.Intn(8), 1, 3), unparsableTail(r)...)
		return s, "unparsable-tail/codesep"
	default:
		// P2PKH-like
		s := append([]byte{0x76, 0xa9, 0x14}, r.Bytes(20)...)
		return append(s, 0x88, 0xac), "parsable/no-codesep"
	}
}

var hashTypeEdges = []uint32{0, 1, 2, 3, 0x80, 0x81, 0x82, 0x83, 4, 0x1f, 0x20, 0x21, 0x22, 0x23, 0x41, 0x7f, 0x84, 0xc3, 0xff,
	0x100, 0x101, 0x103, 0x183, 0x7fffffff, 0x80000000, 0x80000001, 0xffffff83, 0xffffffff, 0xffffff03}

func randHashType(r *vlib.Rand) uint32 {
	switch r.Intn(6) {
	case 0, 1:
		return hashTypeEdges[r.Intn(8)]
	case 2:
		return uint32(r.Intn(256))
	case 3:
		return r.U32()&^0x9f | uint32(1+r.Intn(3)) | uint32(r.Intn(2))<<7
	case 4:
		return hashTypeEdges[r.Intn(len(hashTypeEdges))]
	}
	return r.U32()
}

func hashTypeKind(ht uint32) string {
	s := []string{"other", "all", "none", "single"}[0]
	switch ht & 0x1f {
	case 1:
		s = "all"
	case 2:
		s = "none"
	case 3:
		s = "single"
	default:
		s = "other"
	}
	if ht&0x80 != 0 {
		s += "|acp"
	}
	if ht > 0xff {
		s += "/32bit"
	}
	return s
}
