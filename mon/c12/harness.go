package main

import (
	"encoding/json"
	"fmt"
	"os"
	"runtime"
	"runtime/debug"
	"runtime/pprof"
	"strconv"
	"strings"
	"sync"
	"syscall"
	"time"
	_ "unsafe" // go:linkname

	"github.com/piotrnar/gocoin/client/common"
	"github.com/piotrnar/gocoin/client/txpool"
	"github.com/piotrnar/gocoin/lib/btc"
	"github.com/piotrnar/gocoin/lib/chain"
	"verif/lib/vlib"
	"verif/mon/chainsim"
	"verif/ref/refchain"
)

// The expiry sweep of txpool.Tick() runs at most once per hour of wall clock, governed by this
// unexported variable. The harness moves it into the past (no change to /repo, no waiting).
//
//go:linkname nextTxsPoolExpire github.com/piotrnar/gocoin/client/txpool.nextTxsPoolExpire
var nextTxsPoolExpire time.Time

var stopProfile func()

type profile struct {
	idx        int
	poison     bool // families that hit recorded (known) findings are enabled in the 2nd half
	evict      bool // large transactions: reaches the size limit
	notFullRBF bool
	noMemIn    bool
	listEvery  int // listings + dry-run block after every n-th step
}

func profileOf(i int) profile {
	p := profile{idx: i, listEvery: []int{1, 1, 2, 4}[i%4]}
	p.poison = true // F1..F6 are repaired: their families are ordinary (strictly judged) families now
	p.evict = i%8 == 3
	p.notFullRBF = i%4 == 1
	p.noMemIn = i%10 == 7
	return p
}

type genTx struct {
	t         *refchain.Tx
	raw       []byte
	id        Hash
	fee       uint64
	family    string
	badScript bool
	poison    string
}

type hist struct {
	run   *vlib.Run
	r     *vlib.Rand
	prof  profile
	steps int
	base  string

	node *chainsim.Node
	ref  *refchain.Chain
	g    *chainsim.Gen

	known         map[OP]refchain.Coin // outputs of every generated tx (generator knowledge)
	gen           map[Hash]*genTx
	genList       []*genTx
	queue         []*genTx // built but withheld (parents of orphans, ...)
	reserved      map[OP]bool
	confirmed     map[Hash]bool // txids in blocks of the active reference chain
	everConfirmed map[Hash]bool
	everPooled    map[Hash]bool // txids seen pooled at some walk
	prevPooled    map[Hash]bool // txids pooled at the previous walk
	baseHeight    uint32

	v        *pview
	step     int
	kind     string
	jf       *os.File
	jtail    []string
	maxPool  int
	stopped  bool
	poisonOn bool

	utxo   refchain.UTXO // the node's UTXO dump, refreshed after every delivered block
	utxoTx map[Hash]bool

	lastDeliver     string // why the last delivery made node and reference disagree ("" = they agree)
	lastNode        string // the node's verdict on the last delivered block
	pendingFindings []finding
	lastSub         *genTx // the tx being / last submitted
	subbed          map[Hash]*genTx // every transaction ever submitted (the pool may have rejected or replaced it since)

	cm struct { // the call into the code under test that is in progress (read by the watchdog goroutine)
		sync.Mutex
		active bool
		what   string
		start  time.Time
		retry0 uint64
	}
	maxEvNet int
}

func (h *hist) note(format string, a ...interface{}) {
	s := fmt.Sprintf("%d/%s ", h.step, h.kind) + fmt.Sprintf(format, a...)
	if h.jf != nil {
		fmt.Fprintln(h.jf, s)
	}
	if len(s) > 1500 {
		s = s[:1500] + "...(cut)"
	}
	h.jtail = append(h.jtail, s)
	if len(h.jtail) > 40 {
		h.jtail = h.jtail[len(h.jtail)-40:]
	}
}

func childMain(args []string) {
	seed, _ := strconv.ParseInt(args[0], 10, 64)
	tier := args[1]
	idx, _ := strconv.Atoi(args[2])
	steps, _ := strconv.Atoi(args[3])
	base := args[4]

	// stderr (println of the code under test, Go panics) goes to a file the parent reads
	if ef, err := os.Create(base + ".stderr"); err == nil {
		syscall.Dup2(int(ef.Fd()), 2)
	}
	chainsim.QuietStdout()

	if pf := os.Getenv("C12_CPUPROFILE"); pf != "" { // tuning aid
		if f, err := os.Create(pf); err == nil {
			pprof.StartCPUProfile(f)
			defer pprof.StopCPUProfile()
			stopProfile = pprof.StopCPUProfile
		}
	}
	run := vlib.StartChild(ID, seed, tier)
	h := &hist{run: run, prof: profileOf(idx), steps: steps, base: base,
		known: map[OP]refchain.Coin{}, gen: map[Hash]*genTx{}, reserved: map[OP]bool{},
		confirmed: map[Hash]bool{}, everConfirmed: map[Hash]bool{}, everPooled: map[Hash]bool{}}
	h.r = vlib.NewRand(uint64(seed)).Fork(fmt.Sprintf("C12/history/%d", idx))
	h.jf, _ = os.Create(base + ".journal")
	status := "completed"
	func() {
		defer func() {
			if r := recover(); r != nil {
				st := string(debug.Stack())
				fn := firstTxpoolFrame(st)
				fam := ""
				if h.lastSub != nil {
					fam = "fam:" + h.lastSub.family + "/"
				}
				cls := "panic/" + fam + fn
				if fn == "outside-txpool" {
					// a panic of the harness itself is not a verdict about txpool
					if !strings.Contains(st, "gocoin/") {
						run.Inconclusive("harness panic in history %d step %d (%s): %v", idx, h.step, h.kind, r)
						status = "harness-panic"
						fmt.Fprintln(os.Stderr, "HARNESS PANIC", r, st)
						return
					}
					cls = "panic/" + fam + slug(fmt.Sprint(r))
				}
				run.Violation(cls, fmt.Sprintf("panic while txpool processed step %d (%s): %v", h.step, h.kind, r), h.witness(nil, map[string]interface{}{"panic": fmt.Sprint(r), "stack": cut(st, 3000)}))
				status = "violation"
			}
		}()
		h.setup(seed)
		go h.watchdog()
		if h.runHistory() {
			status = "violation"
		}
	}()
	run.Extra(fmt.Sprintf("max_pool_h%d", idx%8), h.maxPool)
	if h.node != nil {
		func() {
			defer func() { recover() }()
			h.node.Close()
		}()
	}
	run.ExportState(base + ".state")
	os.WriteFile(base+".done", []byte(status), 0o644)
	os.RemoveAll(base + ".dir")
	if stopProfile != nil {
		stopProfile()
	}
	os.Exit(0)
}

func retryCounter() uint64 {
	common.CounterMutex.Lock()
	defer common.CounterMutex.Unlock()
	return common.Counter["TxRetryRjctd-202"] // txAccepted: a waiting orphan was retried and is still without its input
}

func (h *hist) enter(what string) {
	r := retryCounter()
	h.cm.Lock()
	h.cm.active, h.cm.what, h.cm.start, h.cm.retry0 = true, what, time.Now(), r
	h.cm.Unlock()
}

func (h *hist) leave() {
	h.cm.Lock()
	h.cm.active = false
	h.cm.Unlock()
}

// watchdog runs in its own goroutine. Count-based criterion (decides): within ONE call into the code
// under test the orphan-retry counter advanced by more than a million although the reject cache
// holds at most a few thousand transactions => txAccepted retries the same orphan without bound.
// Wall-clock criterion (never decides): a single call lasting minutes => inconclusive.
func (h *hist) watchdog() {
	for {
		time.Sleep(200 * time.Millisecond)
		h.cm.Lock()
		active, what, start, r0 := h.cm.active, h.cm.what, h.cm.start, h.cm.retry0
		h.cm.Unlock()
		if !active {
			continue
		}
		d := retryCounter() - r0
		if d > 1000000 {
			buf := make([]byte, 1<<16)
			buf = buf[:runtime.Stack(buf, true)]
			st := string(buf)
			if i := strings.Index(st, "goroutine 1 "); i >= 0 {
				st = st[i:]
			}
			fn := firstTxpoolFrame(st)
			if strings.Contains(st, "txpool.txAccepted(") {
				fn = "txaccepted"
			}
			h.run.Violation("no-return/"+fn+"/orphan-retried-without-bound",
				fmt.Sprintf("a single call (%s) into the node did not return: txAccepted re-submitted a waiting orphan %d times within that call (the orphan is put back under the same parent and picked up again)", what, d),
				h.witness(nil, map[string]interface{}{"retries_in_this_call": d, "call": what, "stack_of_main_goroutine": cut(st, 3500)}))
			h.run.ExportState(h.base + ".state")
			os.WriteFile(h.base+".done", []byte("violation"), 0o644)
			os.Exit(0)
		}
		if time.Since(start) > 4*time.Minute {
			buf := make([]byte, 1<<16)
			buf = buf[:runtime.Stack(buf, true)]
			h.run.Inconclusive("history %d step %d (%s): call %s did not return within 4 minutes; stack: %s", h.prof.idx, h.step, h.kind, what, cut(string(buf), 1500))
			h.run.ExportState(h.base + ".state")
			os.WriteFile(h.base+".done", []byte("stalled"), 0o644)
			os.Exit(0)
		}
	}
}

func cut(s string, n int) string {
	if len(s) > n {
		return s[:n] + "...(cut)"
	}
	return s
}

// setup wires txpool like client/main.go + client/init.go.
func (h *hist) setup(seed int64) {
	dir := h.base + ".dir"
	os.MkdirAll(dir, 0o770)
	cfg := map[string]interface{}{
		"Datadir":        dir + "/data",
		"TextUI_Enabled": false,
		"WebUI":          map[string]interface{}{"Interface": ""},
		"Net":            map[string]interface{}{"ListenTCP": false},
		"TXPool": map[string]interface{}{"MaxSizeMB": 10, // the smallest value config.go accepts
			"NotFullRBF": h.prof.notFullRBF, "AllowMemInputs": !h.prof.noMemIn, "SaveOnDisk": true},
	}
	cb, _ := json.Marshal(cfg)
	cfn := dir + "/gocoin.conf"
	os.WriteFile(cfn, cb, 0o644)
	os.Setenv("GOCOIN_CLIENT_CONFIG", cfn)
	os.Args = os.Args[:1] // InitConfig parses the command line
	common.InitConfig()
	if common.CFG.Datadir != dir+"/data" || common.MaxMempoolSize() != 10e6 {
		panic("harness: config not applied")
	}
	// host_init()
	common.GocoinHomeDir = common.CFG.Datadir + string(os.PathSeparator) + common.DataSubdir() + string(os.PathSeparator)
	os.MkdirAll(common.GocoinHomeDir, 0o770)
	p := chainsim.DefaultParams(uint64(seed)*1000+uint64(h.prof.idx), false)
	h.ref = refchain.NewChain(p, func() int64 { return time.Now().Unix() })
	h.node = chainsim.OpenNode(common.GocoinHomeDir, p, chainsim.NodeOpts{
		Callbacks: &chain.NewChanOpts{BlockMinedCB: txpool.BlockMined, BlockUndoneCB: txpool.BlockUndone}})
	h.g = chainsim.NewGen(h.r.Fork("gen"), p, h.ref)
	common.BlockChain = h.node.Ch
	common.Last.Block = common.BlockChain.LastBlock()
	common.Last.Time = time.Unix(int64(common.Last.Block.Timestamp()), 0)
	common.UpdateScriptFlags(0)
	common.BlockChainSynchronized.Store(true)
	txpool.InitMempool()
	if chain.TrustedTxChecker == nil {
		panic("harness: txpool did not install chain.TrustedTxChecker")
	}

	// base chain: coinbases mature, a variety of confirmed outputs
	h.kind = "base"
	for h.ref.Tip.Height < 104 {
		if !h.deliver(h.g.RandomBlock(h.ref.Tip, 0), "base", true) {
			panic("harness: base chain refused")
		}
	}
	for h.ref.Tip.Height < 128 {
		if !h.deliver(h.g.RandomBlock(h.ref.Tip, 7), "base", true) {
			panic("harness: base chain refused")
		}
	}
	h.baseHeight = h.ref.Tip.Height
}

// nodeDeliver hands a block to the node the way client/main.go does (LocalAcceptBlock):
// CheckBlock, then the commit bracketed by txpool.BlockCommitInProgress, then common.Last and the
// script flags are updated.
func (h *hist) nodeDeliver(raw []byte) chainsim.DeliverResult {
	h.enter("deliver block")
	defer h.leave()
	ch := h.node.Ch
	bl, er := btc.NewBlock(raw)
	if er != nil {
		return chainsim.DeliverResult{Stage: "decode", Err: er.Error()}
	}
	ch.BlockIndexAccess.Lock()
	_, later, er := ch.CheckBlock(bl)
	ch.BlockIndexAccess.Unlock()
	if er != nil {
		return chainsim.DeliverResult{Stage: "check", Err: er.Error(), MaybeLater: later}
	}
	bl.LastKnownHeight = bl.Height
	if lh := ch.LastBlock().Height; lh > bl.LastKnownHeight {
		bl.LastKnownHeight = lh
	}
	txpool.BlockCommitInProgress(true)
	er = ch.AcceptBlock(bl)
	txpool.BlockCommitInProgress(false)
	common.Last.Mutex.Lock()
	if nl := ch.LastBlock(); nl != common.Last.Block {
		common.Last.Block = nl
		common.Last.Time = time.Now()
	}
	common.UpdateScriptFlags(bl.VerifyFlags)
	common.Last.Mutex.Unlock()
	if er != nil {
		return chainsim.DeliverResult{Stage: "accept", Err: er.Error()}
	}
	return chainsim.DeliverResult{Stage: "ok"}
}

// deliver gives the block to the reference and to the node. mustConnect: the caller built it valid
// on the tip. Returns false when the history cannot go on (chains disagree: outside C12).
func (h *hist) deliver(b *refchain.Block, family string, mustConnect bool) bool {
	raw := b.Serialize()
	oldTip := h.ref.Tip
	rr := h.ref.Deliver(b)
	gr := h.nodeDeliver(raw)
	h.note("block %s family=%s txs=%d ref=%s/%s node=%s/%s", b.Hash(), family, len(b.Txs), rr.Stage, rr.Reason, gr.Stage, cut(gr.Err, 120))
	h.run.Inc("blocks_delivered")
	h.run.Inc("blocks/" + family)
	h.lastNode = gr.Stage + "/" + gr.Err
	th, _ := h.node.Tip()
	if h.ref.Tip != oldTip {
		h.rebuildConfirmed()
		if d := forkDepth(oldTip, h.ref.Tip); d > 0 {
			h.run.Inc("reorgs")
			h.run.Count("blocks_undone", int64(d))
		}
	}
	if th != h.ref.Tip.Hash {
		h.lastDeliver = "node " + gr.Stage + "/" + gr.Err + " ref " + rr.Stage + "/" + rr.Reason
		return false
	}
	h.refreshUTXO()
	if d := chainsim.DiffUTXO(h.utxo, h.ref.Utxo); d != "" {
		h.lastDeliver = "utxo differs: " + d
		return false
	}
	if mustConnect && rr.Stage != "connected" {
		h.lastDeliver = "reference refused a block the generator built as valid: " + rr.Stage + "/" + rr.Reason + h.diagnoseBlock(b)
		return false
	}
	h.lastDeliver = ""
	return true
}

// diagnoseBlock names the first tx of b that cannot be connected on the reference tip (generator debugging)
func (h *hist) diagnoseBlock(b *refchain.Block) string {
	made := map[OP]bool{}
	gone := map[OP]bool{}
	for i, t := range b.Txs {
		id := t.TxID()
		if i > 0 {
			for _, in := range t.In {
				_, conf := h.ref.Utxo[in.Prev]
				if gone[in.Prev] || (!conf && !made[in.Prev]) {
					fam := "?"
					if g := h.gen[id]; g != nil {
						fam = g.family
					}
					return fmt.Sprintf(" [tx #%d %s family=%s input %s:%d spent-in-block=%v]", i, id, fam, in.Prev.Hash, in.Prev.Idx, gone[in.Prev])
				}
				gone[in.Prev] = true
			}
		}
		for oi := range t.Out {
			made[OP{Hash: id, Idx: uint32(oi)}] = true
		}
	}
	return ""
}

func (h *hist) refreshUTXO() {
	h.utxo = h.node.DumpUTXO()
	h.utxoTx = make(map[Hash]bool, len(h.utxo))
	for op := range h.utxo {
		h.utxoTx[op.Hash] = true
	}
	h.run.Inc("utxo_dumps")
}

func forkDepth(old, nw *refchain.Node) int {
	d := 0
	for o := old; o != nil; o = o.Parent {
		for n := nw; n != nil && n.Height >= o.Height; n = n.Parent {
			if n == o {
				return d
			}
		}
		d++
	}
	return d
}

func (h *hist) rebuildConfirmed() {
	h.confirmed = map[Hash]bool{}
	for n := h.ref.Tip; n != nil && n.Block != nil; n = n.Parent {
		for _, t := range n.Block.Txs {
			id := t.TxID()
			h.confirmed[id] = true
			h.everConfirmed[id] = true
		}
	}
}

// ---- submission paths ---------------------------------------------------------------------

// submit hands the raw transaction to txpool through one of the three entry paths.
// Returns the result code (0 = accepted) or -1 when it was not processed (not needed / undecodable).
func (h *hist) submit(x *genTx, path string) int {
	hexs := vlib.Hex(x.raw)
	if len(hexs) > 3000 {
		hexs = fmt.Sprintf("big:%d:%s...", len(x.raw), hexs[:200])
	}
	h.note("submit %s family=%s path=%s raw=%s", x.id, x.family, path, hexs)
	if x.badScript {
		// the trusted and the local path do not verify scripts by design (the submitter vouches for
		// them); transactions whose script fails by construction only ever arrive from the untrusted path
		path = "net"
	}
	h.lastSub = x
	if h.subbed == nil {
		h.subbed = map[Hash]*genTx{}
	}
	if len(h.subbed) < 20000 {
		h.subbed[x.id] = x
	}
	h.enter("submit " + path + " " + x.family)
	defer h.leave()
	res := -1
	tx, le := btc.NewTx(x.raw)
	if tx == nil || le != len(x.raw) || len(tx.TxIn) < 1 {
		h.run.Inc("submit_undecodable")
		h.outcome(x, path, "undecodable")
		return -1
	}
	tx.SetHash(x.raw)
	switch path {
	case "net", "net-trusted":
		// client/network/trxs.go ParseTxNet + the main loop's HandleNetTx
		var ntx *txpool.TxRcvd
		why := txpool.NeedThisTxExt(&tx.Hash, func() {
			ntx = &txpool.TxRcvd{Tx: tx, Trusted: path == "net-trusted", FromCID: 1,
				FeedbackCB: func(n *txpool.TxRcvd, t2s *txpool.OneTxToSend) {}}
			txpool.TransactionsPending[tx.Hash.BIdx()] = true
		})
		if why != 0 {
			h.outcome(x, path, fmt.Sprint("not-needed-", why))
			return -1
		}
		txpool.HandleNetTx(ntx)
		res = int(ntx.Result)
	case "local":
		// client/usif/usif.go LoadRawTx
		txpool.TxMutex.Lock()
		txpool.DeleteRejectedByIdx(tx.Hash.BIdx(), false)
		txpool.TxMutex.Unlock()
		if why := txpool.NeedThisTxExt(&tx.Hash, nil); why != 0 {
			txpool.TxMutex.Lock()
			if t2s := txpool.TransactionsToSend[tx.Hash.BIdx()]; t2s != nil {
				t2s.Local = true
			}
			txpool.TxMutex.Unlock()
			h.outcome(x, path, fmt.Sprint("not-needed-", why))
			return -1
		}
		if txpool.SubmitLocalTx(tx, x.raw) {
			res = 0
		} else {
			res = 255
			txpool.TxMutex.Lock()
			if rr := txpool.TransactionsRejected[tx.Hash.BIdx()]; rr != nil {
				res = int(rr.Reason)
			}
			txpool.TxMutex.Unlock()
		}
	default:
		panic("harness: path " + path)
	}
	rs := "accepted"
	if res != 0 {
		rs = txpool.ReasonToString(byte(res))
		if res == txpool.TX_REJECTED_SCRIPT_FAIL {
			rs = "SCRIPT_FAIL"
		}
		if res == 255 {
			rs = "rejected-not-recorded"
		}
	}
	h.run.Inc("submissions")
	h.run.Inc("path/" + path)
	h.run.Inc("result/" + rs)
	h.outcome(x, path, rs)
	if x.badScript && res == 0 && path == "net" {
		h.pendingFindings = append(h.pendingFindings, finding{head: "pool-accepts-invalid-script", detail: "fam:" + x.family,
			what: fmt.Sprintf("tx %s with a script that fails by construction was accepted from the untrusted network path", x.id)})
	}
	return res
}

func bucket(n int) string {
	switch {
	case n == 0:
		return "0"
	case n == 1:
		return "1"
	case n < 5:
		return "2-4"
	case n < 20:
		return "5-19"
	case n < 100:
		return "20-99"
	}
	return "100+"
}

func (h *hist) outcome(x *genTx, path, rs string) {
	npar := 0
	if h.v != nil {
		seen := map[Hash]bool{}
		for _, in := range x.t.In {
			if h.v.byID[in.Prev.Hash] != nil && !seen[in.Prev.Hash] {
				seen[in.Prev.Hash] = true
				npar++
			}
		}
	}
	np := 0
	if h.v != nil {
		np = len(h.v.ents)
	}
	h.run.Distinct("step_outcomes", h.kind, x.family, path, rs, bucket(np), bucket(npar))
	h.run.Inc("family/" + x.family)
	h.run.Distinct("family_outcomes", x.family, path, rs)
}

// ---- checking -----------------------------------------------------------------------------

func (h *hist) witness(fs []finding, extra map[string]interface{}) map[string]interface{} {
	w := map[string]interface{}{"history": h.prof.idx, "profile": fmt.Sprintf("%+v", h.prof), "step": h.step, "step_kind": h.kind,
		"journal_tail": append([]string{}, h.jtail...), "tip_height": 0,
		"replay": fmt.Sprintf("VERIF_SEED=%d C12_FIRST=%d C12_HISTORIES=1 C12_STEPS=%d bin/c12.main %s (map-iteration order inside txpool may vary between runs)", h.run.Seed, h.prof.idx, h.steps, h.run.Tier)}
	if h.ref != nil {
		w["tip_height"] = h.ref.Tip.Height
	}
	if h.v != nil {
		w["pool_size"] = len(h.v.ents)
	}
	var txs []map[string]string
	seen := map[Hash]bool{}
	for _, f := range fs {
		for _, e := range f.txs {
			if e == nil || seen[e.id] || len(txs) >= 4 {
				continue
			}
			seen[e.id] = true
			m := map[string]string{"txid": e.id.String(), "raw": cut(vlib.Hex(e.t2s.Raw), 4000)}
			if g := h.gen[e.id]; g != nil {
				m["family"] = g.family
			}
			for i, op := range e.ins {
				if i < 4 {
					m[fmt.Sprintf("in%d", i)] = fmt.Sprintf("%s:%d", op.Hash, op.Idx)
				}
			}
			txs = append(txs, m)
		}
	}
	if txs != nil {
		w["txs"] = txs
	}
	for k, v := range extra {
		w[k] = v
	}
	return w
}

// classOf: head [/fam:<generator family of the tx the finding is about>] [/detail]
func (h *hist) classOf(f finding) string {
	c := f.head
	if len(f.txs) > 0 && f.txs[0] != nil {
		fam := "not-generated-by-harness-directly"
		if g := h.gen[f.txs[0].id]; g != nil {
			fam = g.family
		}
		c += "/fam:" + fam
	}
	if f.detail != "" {
		c += "/" + f.detail
	}
	return c
}

// check runs the walker and reports. Returns false when the history must stop.
func (h *hist) check(full bool) bool {
	v, fs := h.walk(full)
	if (len(fs)+len(h.pendingFindings) > 0 || v.suspect) && !full {
		// gather every consequence at the failing step
		v, fs = h.walk(true)
	}
	fs = append(fs, h.pendingFindings...)
	h.pendingFindings = nil
	h.v = v
	h.prevPooled = map[Hash]bool{}
	for _, e := range v.ents {
		h.everPooled[e.id] = true
		h.prevPooled[e.id] = true
	}
	if len(fs) == 0 {
		return true
	}
	seen := map[string]bool{}
	var all []string
	for _, f := range fs {
		all = append(all, h.classOf(f))
	}
	for i, f := range fs {
		if seen[all[i]] {
			continue
		}
		seen[all[i]] = true
		h.run.Violation(all[i], f.what, h.witness([]finding{f}, map[string]interface{}{"all_classes_at_this_step": all}))
	}
	h.run.ExportState(h.base + ".state")
	h.stopped = true
	return false
}
