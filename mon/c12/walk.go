package main

// The invariant walker: recomputes the C12 invariants from first principles over
//   - the exported maps of client/txpool (TransactionsToSend, SpentOutputs, TransactionsRejected,
//     WaitingForInputs, RejectedSpentOutputs, TRIdxArray, TransactionsPending, totals),
//   - the node's UTXO dump (chainsim.Node.DumpUTXO),
//   - the raw bytes of every pooled transaction decoded with the independent codec /verif/ref/reftx.
// Nothing computed by txpool (Fee, MemInputs, sizes, listings, MempoolCheck) is trusted.

import (
	"bytes"
	"fmt"
	"math/bits"
	"sort"
	"strings"

	"github.com/piotrnar/gocoin/client/txpool"
	"github.com/piotrnar/gocoin/lib/btc"
	"github.com/piotrnar/gocoin/lib/chain"
	"verif/mon/chainsim"
	"verif/ref/refchain"
	"verif/ref/reftx"
)

type OP = refchain.OutPoint
type Hash = refchain.Hash

// pent = one pooled transaction as the walker sees it
type pent struct {
	t2s    *txpool.OneTxToSend
	bidx   btc.BIDX
	id     Hash
	rt     *reftx.Tx
	ins    []OP // as listed (with repetitions)
	dupIn  bool // lists one outpoint more than once
	outBad bool // an output value outside [0, MAX_MONEY] or the sum overflows
	sumIn  uint64
	sumOut uint64
	inOK   bool // every input resolved to a confirmed-unspent or pooled output
	fee    uint64
	feeOK  bool
	weight int
	par    []*pent // distinct pooled parents
}

type pview struct {
	ents  []*pent // sorted by txid
	byID  map[Hash]*pent
	spent map[OP][]*pent // pooled spenders of an outpoint (distinct txs)
	utxo  refchain.UTXO
	// something only the dry-run block can judge (e.g. a pooled tx without outputs) is present:
	// the caller upgrades a cheap walk to a full one
	suspect bool
}

// finding: class = head [/fam:<generator family of the first tx>] [/detail]
type finding struct {
	head   string
	detail string
	what   string
	txs    []*pent
}

func hashOf(b [32]byte) Hash { return Hash(b) }

func toRef(rt *reftx.Tx) *refchain.Tx {
	t := &refchain.Tx{Version: rt.Version, LockTime: rt.LockTime}
	for _, in := range rt.In {
		ri := refchain.TxIn{Prev: OP{Hash: Hash(in.PrevHash), Idx: in.PrevIndex}, ScriptSig: in.ScriptSig, Sequence: in.Sequence}
		for _, w := range in.Witness {
			ri.Witness = append(ri.Witness, w)
		}
		t.In = append(t.In, ri)
	}
	for _, o := range rt.Out {
		t.Out = append(t.Out, refchain.TxOut{Value: uint64(o.Value), Script: o.PkScript})
	}
	return t
}

func uidx(op OP) uint64 { return btc.UIdx(op.Hash[:], op.Idx) }

// children of e in v (distinct, sorted by id)
func (v *pview) children(e *pent) []*pent {
	seen := map[*pent]bool{}
	var l []*pent
	for oi := range e.rt.Out {
		for _, c := range v.spent[OP{Hash: e.id, Idx: uint32(oi)}] {
			if !seen[c] {
				seen[c] = true
				l = append(l, c)
			}
		}
	}
	sort.Slice(l, func(i, j int) bool { return bytes.Compare(l[i].id[:], l[j].id[:]) < 0 })
	return l
}

// descendants of e (excluding e), breadth first
func (v *pview) descendants(e *pent) []*pent {
	seen := map[*pent]bool{e: true}
	var l []*pent
	q := []*pent{e}
	for len(q) > 0 {
		x := q[0]
		q = q[1:]
		for _, c := range v.children(x) {
			if !seen[c] {
				seen[c] = true
				l = append(l, c)
				q = append(q, c)
			}
		}
	}
	return l
}

// walk runs the invariants. full = also the listings (f) and the dry-run block (g).
// Must be called without TxMutex held.
func (h *hist) walk(full bool) (*pview, []finding) {
	var fs []finding
	add := func(class, what string, txs ...*pent) {
		head, detail := class, ""
		if i := strings.IndexByte(class, '/'); i >= 0 {
			head, detail = class[:i], class[i+1:]
		}
		fs = append(fs, finding{head, detail, what, txs})
	}
	v := &pview{byID: map[Hash]*pent{}, spent: map[OP][]*pent{}}
	// The node's UTXO set changes only while a block is connected / disconnected, i.e. inside
	// deliver(); the full dump taken there is reused (iterating the pre-sized shards costs ~15 ms).
	// Every confirmed input of a pooled tx is cross-checked below with a point lookup.
	if h.utxo == nil {
		h.refreshUTXO()
	}
	v.utxo = h.utxo
	utxoTx := h.utxoTx

	h.enter("walker: listings / MempoolCheck")
	defer h.leave()
	txpool.TxMutex.Lock()
	locked := true
	unlock := func() {
		if locked {
			locked = false
			txpool.TxMutex.Unlock()
		}
	}
	defer unlock()

	// ---- decode the pool ------------------------------------------------------------------
	var sumWeight, sumFoot uint64
	for bidx, t2s := range txpool.TransactionsToSend {
		if t2s == nil || t2s.Tx == nil {
			add("pool-entry-nil", fmt.Sprintf("TransactionsToSend[%x] is nil / has no Tx", bidx[:]))
			continue
		}
		e := &pent{t2s: t2s, bidx: bidx}
		rt, n, err := reftx.Decode(t2s.Raw)
		if err != nil || n != len(t2s.Raw) {
			add("pool-raw-undecodable", fmt.Sprintf("pooled tx %s: raw bytes do not decode with the reference codec (%v, consumed %d of %d)", t2s.Hash.String(), err, n, len(t2s.Raw)))
			continue
		}
		e.rt = rt
		e.id = hashOf(rt.Txid())
		e.weight = rt.Weight()
		if btc.BIdx(e.id[:]) != bidx {
			add("pool-key-mismatch", fmt.Sprintf("pooled tx %s is stored under key %x", e.id, bidx[:]), e)
		}
		if Hash(t2s.Hash.Hash) != e.id {
			add("recorded-txid-mismatch", fmt.Sprintf("pooled tx: recorded txid %s, reference txid %s", t2s.Hash.String(), e.id), e)
		}
		if wid := rt.Wtxid(); !bytes.Equal(t2s.WTxID().Hash[:], wid[:]) {
			add("recorded-wtxid-mismatch", fmt.Sprintf("pooled tx %s: recorded wtxid differs from reference", e.id), e)
		}
		if int(t2s.Size) != rt.TotalSize() {
			add("size-mismatch/size", fmt.Sprintf("pooled tx %s: recorded Size %d, reference %d", e.id, t2s.Size, rt.TotalSize()), e)
		}
		if int(t2s.NoWitSize) != rt.StrippedSize() {
			add("size-mismatch/nowitsize", fmt.Sprintf("pooled tx %s: recorded NoWitSize %d, reference %d", e.id, t2s.NoWitSize, rt.StrippedSize()), e)
		}
		if t2s.Weight() != rt.Weight() {
			add("size-mismatch/weight", fmt.Sprintf("pooled tx %s: Weight() %d, reference %d", e.id, t2s.Weight(), rt.Weight()), e)
		}
		if t2s.VSize() != rt.VSize() {
			add("size-mismatch/vsize", fmt.Sprintf("pooled tx %s: VSize() %d, reference %d", e.id, t2s.VSize(), rt.VSize()), e)
		}
		okParsed := len(t2s.TxIn) == len(rt.In) && len(t2s.TxOut) == len(rt.Out)
		if okParsed {
			for i := range rt.In {
				if t2s.TxIn[i].Input.Hash != rt.In[i].PrevHash || t2s.TxIn[i].Input.Vout != rt.In[i].PrevIndex {
					okParsed = false
				}
			}
			for i := range rt.Out {
				if t2s.TxOut[i].Value != uint64(rt.Out[i].Value) {
					okParsed = false
				}
			}
		}
		if !okParsed {
			add("parsed-fields-mismatch", fmt.Sprintf("pooled tx %s: parsed inputs/outputs differ from the reference decoding of its raw bytes", e.id), e)
		}
		if len(rt.Out) == 0 {
			v.suspect = true
		}
		seen := map[OP]bool{}
		for _, in := range rt.In {
			op := OP{Hash: Hash(in.PrevHash), Idx: in.PrevIndex}
			e.ins = append(e.ins, op)
			if seen[op] {
				e.dupIn = true
			}
			seen[op] = true
		}
		var carry uint64
		for _, o := range rt.Out {
			if o.Value < 0 || uint64(o.Value) > refchain.MaxMoney {
				e.outBad = true
			}
			var c uint64
			e.sumOut, c = bits.Add64(e.sumOut, uint64(o.Value), 0)
			carry += c
			if e.sumOut > refchain.MaxMoney {
				e.outBad = true
			}
		}
		if carry != 0 {
			e.outBad = true
		}
		sumWeight += uint64(rt.Weight())
		sumFoot += uint64(t2s.Footprint)
		if int(t2s.Footprint) != t2s.SysSize() {
			h.run.Inc("aux_footprint_ne_syssize")
		}
		if prev, dup := v.byID[e.id]; dup {
			add("pool-holds-tx-twice", fmt.Sprintf("txid %s is pooled under two keys", e.id), e, prev)
			continue
		}
		v.byID[e.id] = e
		v.ents = append(v.ents, e)
	}
	sort.Slice(v.ents, func(i, j int) bool { return bytes.Compare(v.ents[i].id[:], v.ents[j].id[:]) < 0 })

	// ---- (a) conflict freedom -------------------------------------------------------------
	for _, e := range v.ents {
		seen := map[OP]bool{}
		for _, op := range e.ins {
			if seen[op] {
				continue
			}
			seen[op] = true
			v.spent[op] = append(v.spent[op], e)
		}
		if e.dupIn {
			add("double-spend/one-pooled-tx-lists-outpoint-twice", fmt.Sprintf("pooled tx %s lists the same outpoint in two of its inputs", e.id), e)
		}
	}
	var confl []OP
	for op, l := range v.spent {
		if len(l) > 1 {
			confl = append(confl, op)
		}
	}
	sort.Slice(confl, func(i, j int) bool { return lessOP(confl[i], confl[j]) })
	for _, op := range confl {
		l := v.spent[op]
		add("double-spend/two-pooled-txs", fmt.Sprintf("outpoint %s:%d is spent by %d pooled txs (%s, %s)", op.Hash, op.Idx, len(l), l[0].id, l[1].id), l[0], l[1])
	}

	// ---- (b) spendability, (c) not confirmed, (d) fee/volume ------------------------------
	for _, e := range v.ents {
		e.inOK = true
		seen := map[OP]bool{}
		pseen := map[*pent]bool{}
		for _, op := range e.ins {
			if seen[op] {
				continue
			}
			seen[op] = true
			if p := v.byID[op.Hash]; p != nil {
				if !pseen[p] {
					pseen[p] = true
					e.par = append(e.par, p)
				}
				if int(op.Idx) >= len(p.rt.Out) {
					e.inOK = false
					add("input-missing/pooled-parent-has-no-such-output", fmt.Sprintf("pooled tx %s spends %s:%d but the pooled parent has %d outputs", e.id, op.Hash, op.Idx, len(p.rt.Out)), e, p)
					continue
				}
				e.sumIn += uint64(p.rt.Out[op.Idx].Value)
				continue
			}
			c, ok := v.utxo[op]
			if po := h.node.Ch.Unspent.UnspentGet(&btc.TxPrevOut{Hash: op.Hash, Vout: op.Idx}); (po != nil) != ok || (ok && po.Value != c.Value) {
				// the cached dump is stale (must not happen): take a fresh one
				h.run.Inc("utxo_dump_cache_stale")
				h.refreshUTXO()
				v.utxo, utxoTx = h.utxo, h.utxoTx
				c, ok = v.utxo[op]
			}
			h.run.Inc("utxo_point_lookups")
			if ok {
				e.sumIn += c.Value
				continue
			}
			e.inOK = false
			switch {
			case h.prevPooled[op.Hash]:
				add("input-missing/parent-was-removed-from-pool", fmt.Sprintf("pooled tx %s spends %s:%d: that tx was pooled at the previous walk and is neither pooled nor confirmed now", e.id, op.Hash, op.Idx), e)
			case h.confirmed[op.Hash]:
				add("input-missing/output-of-confirmed-tx-already-spent-or-absent", fmt.Sprintf("pooled tx %s spends %s:%d: that tx is confirmed in the active chain but the output is not in the UTXO set (spent by the chain / never existed)", e.id, op.Hash, op.Idx), e)
			case h.everConfirmed[op.Hash]:
				add("input-missing/parent-was-disconnected-by-reorg", fmt.Sprintf("pooled tx %s spends %s:%d: that tx was confirmed in a block that is no longer on the active chain and it is not pooled", e.id, op.Hash, op.Idx), e)
			case h.everPooled[op.Hash]:
				add("input-missing/parent-was-removed-from-pool-earlier", fmt.Sprintf("pooled tx %s spends %s:%d: that tx was pooled earlier but is neither pooled nor confirmed now", e.id, op.Hash, op.Idx), e)
			default:
				add("input-missing/parent-neither-confirmed-nor-pooled", fmt.Sprintf("pooled tx %s spends %s:%d which is neither an unspent confirmed output nor an output of a pooled tx", e.id, op.Hash, op.Idx), e)
			}
		}
		if h.confirmed[e.id] {
			add("pooled-tx-already-confirmed", fmt.Sprintf("pooled tx %s is in a block of the active chain", e.id), e)
		} else if utxoTx[e.id] {
			add("pooled-txid-has-unspent-outputs-in-utxo-set", fmt.Sprintf("pooled tx %s has outputs in the UTXO set", e.id), e)
		}
		cause := "/confirmed-inputs-only"
		switch {
		case e.dupIn:
			cause = "/outpoint-listed-twice-counted-twice"
		case e.outBad:
			cause = "/output-values-out-of-range-or-wrapping"
		case len(e.par) > 0:
			cause = "/with-pooled-parent"
		}
		if e.outBad {
			add("pooled-tx-output-values-out-of-range", fmt.Sprintf("pooled tx %s has an output value or output total outside [0, MAX_MONEY]", e.id), e)
		}
		if e.inOK {
			if e.outBad || e.sumOut > e.sumIn {
				if !e.outBad {
					add("pooled-tx-spends-more-than-its-inputs"+cause, fmt.Sprintf("pooled tx %s: inputs %d < outputs %d", e.id, e.sumIn, e.sumOut), e)
				}
			} else {
				e.fee, e.feeOK = e.sumIn-e.sumOut, true
				if e.t2s.Fee != e.fee {
					add("fee-mismatch"+cause, fmt.Sprintf("pooled tx %s: recorded Fee %d, recomputed %d (in %d out %d)", e.id, e.t2s.Fee, e.fee, e.sumIn, e.sumOut), e)
				}
			}
			if e.t2s.Volume != e.sumIn {
				add("volume-mismatch"+cause, fmt.Sprintf("pooled tx %s: recorded Volume %d, recomputed input total %d", e.id, e.t2s.Volume, e.sumIn), e)
			}
		}
	}

	// ---- (e) indexes -----------------------------------------------------------------------
	want := map[uint64]btc.BIDX{}
	ambiguous := map[uint64]bool{}
	for _, e := range v.ents {
		for _, op := range e.ins {
			k := uidx(op)
			if w, ok := want[k]; ok && w != e.bidx {
				ambiguous[k] = true
			}
			want[k] = e.bidx
		}
	}
	nStale, nWrong, nMiss := 0, 0, 0
	for k, got := range txpool.SpentOutputs {
		w, ok := want[k]
		if !ok {
			if nStale == 0 {
				add("spent-index/stale-entry", fmt.Sprintf("SpentOutputs has key %016x -> %x but no pooled tx spends such an outpoint", k, got[:]))
			}
			nStale++
		} else if w != got && !ambiguous[k] {
			if nWrong == 0 {
				add("spent-index/wrong-owner", fmt.Sprintf("SpentOutputs[%016x] = %x, the pooled spender is %x", k, got[:], w[:]))
			}
			nWrong++
		}
	}
	for k, w := range want {
		if _, ok := txpool.SpentOutputs[k]; !ok {
			if nMiss == 0 {
				add("spent-index/missing-entry", fmt.Sprintf("SpentOutputs lacks key %016x (input of pooled tx %x)", k, w[:]), v.byBIDX(w))
			}
			nMiss++
		}
	}
	for _, e := range v.ents {
		mi := e.t2s.MemInputs
		if mi != nil && len(mi) != len(e.ins) {
			add("meminputs/length", fmt.Sprintf("pooled tx %s: len(MemInputs)=%d, inputs=%d", e.id, len(mi), len(e.ins)), e)
			continue
		}
		cnt := uint32(0)
		for i, op := range e.ins {
			inPool := v.byID[op.Hash] != nil
			flag := mi != nil && mi[i]
			if inPool {
				cnt++
			}
			if flag && !inPool {
				add("meminputs/flag-set-but-parent-not-pooled", fmt.Sprintf("pooled tx %s input %d (%s:%d): MemInputs flag set, parent not pooled", e.id, i, op.Hash, op.Idx), e)
			} else if !flag && inPool {
				add("meminputs/flag-clear-but-parent-pooled", fmt.Sprintf("pooled tx %s input %d (%s:%d): parent is pooled, MemInputs flag clear", e.id, i, op.Hash, op.Idx), e)
			}
		}
		if e.t2s.MemInputCnt != cnt {
			add("meminputcnt-mismatch", fmt.Sprintf("pooled tx %s: MemInputCnt %d, inputs with pooled parent %d", e.id, e.t2s.MemInputCnt, cnt), e)
		}
	}
	if txpool.TransactionsToSendWeight != sumWeight {
		add("total-weight-mismatch", fmt.Sprintf("TransactionsToSendWeight %d, sum of reference weights %d", txpool.TransactionsToSendWeight, sumWeight))
	}
	if txpool.TransactionsToSendSize != sumFoot {
		add("total-size-mismatch", fmt.Sprintf("TransactionsToSendSize %d, sum of recorded footprints %d", txpool.TransactionsToSendSize, sumFoot))
	}
	if n := len(txpool.TransactionsPending); n != 0 {
		add("pending-leak", fmt.Sprintf("TransactionsPending holds %d ids although nothing is in flight", n))
	}
	h.walkRejected(v, add)

	// ---- (f) listings ----------------------------------------------------------------------
	var rbfList []*pent
	if full {
		for _, ls := range []struct {
			name string
			f    func() []*txpool.OneTxToSend
		}{{"GetSortedMempool", txpool.GetSortedMempool}, {"GetSortedMempoolRBF", txpool.GetSortedMempoolRBF}, {"GetSortedMempoolSlow", txpool.GetSortedMempoolSlow}} {
			l := ls.f()
			pl := h.checkListing(v, ls.name, l, add)
			if ls.name == "GetSortedMempoolRBF" {
				rbfList = pl
			}
			h.run.Inc("listings_checked")
		}
	}

	// ---- auxiliary: the pool's own checker -------------------------------------------------
	if txpool.MempoolCheck() {
		h.run.Inc("aux_mempoolcheck_reports_errors")
		if len(fs) == 0 {
			h.run.Inc("aux_mempoolcheck_errors_while_walker_clean")
			if h.run.WantSample() {
				h.run.Sample(map[string]interface{}{"note": "MempoolCheck() reported errors while the walker found none", "history": h.prof.idx, "step": h.step, "kind": h.kind})
			}
		}
	} else {
		h.run.Inc("aux_mempoolcheck_ok")
		if len(fs) != 0 {
			h.run.Inc("aux_mempoolcheck_ok_while_walker_fires")
		}
	}
	unlock()

	// ---- (g) dry-run block from the listing --------------------------------------------------
	if full && rbfList != nil && len(rbfList) > 0 {
		stage, er := h.dryRun(rbfList)
		h.run.Inc("dryrun_blocks")
		h.run.Count("dryrun_block_txs", int64(len(rbfList)))
		if stage != "ok" {
			cause := ""
			var inv []*pent
			for _, e := range rbfList {
				switch {
				case e.dupIn:
					cause = "/pooled-tx-lists-outpoint-twice"
				case e.outBad:
					cause = "/pooled-tx-output-values-out-of-range"
				case !e.inOK:
					cause = "/pooled-tx-with-missing-input"
				case len(v.rt0(e)) == 0:
					cause = "/pooled-tx-without-outputs"
				default:
					continue
				}
				inv = append(inv, e)
				break
			}
			if cause == "" {
				for _, op := range confl {
					_ = op
					cause = "/pool-holds-conflicting-txs"
				}
			}
			add("block-from-listing-refused/"+stage+"/"+normErr(er)+cause, "a block assembled from GetSortedMempoolRBF() was refused by the node's own validation ("+stage+"): "+er, inv...)
		}
	}
	h.run.Inc("walks")
	if full {
		h.run.Inc("walks_full")
	}
	h.run.Count("pooled_txs_walked", int64(len(v.ents)))
	if len(v.ents) > h.maxPool {
		h.maxPool = len(v.ents)
	}
	return v, fs
}

func (v *pview) rt0(e *pent) []reftx.TxOut { return e.rt.Out }

func (v *pview) byBIDX(b btc.BIDX) *pent {
	for _, e := range v.ents {
		if e.bidx == b {
			return e
		}
	}
	return nil
}

func lessOP(a, b OP) bool {
	if c := bytes.Compare(a.Hash[:], b.Hash[:]); c != 0 {
		return c < 0
	}
	return a.Idx < b.Idx
}

// checkListing: exactly the pool, each once, parents before children.
func (h *hist) checkListing(v *pview, name string, l []*txpool.OneTxToSend, add func(string, string, ...*pent)) []*pent {
	pos := map[*pent]int{}
	var pl []*pent
	bad := false
	for i, t := range l {
		if t == nil {
			add("listing-nil-entry/"+name, fmt.Sprintf("%s()[%d] is nil", name, i))
			bad = true
			continue
		}
		e := v.byID[Hash(t.Hash.Hash)]
		if e == nil || e.t2s != t {
			add("listing-foreign-entry/"+name, fmt.Sprintf("%s()[%d] = %s is not (the object) in the pool", name, i, t.Hash.String()))
			bad = true
			continue
		}
		if _, dup := pos[e]; dup {
			add("listing-duplicate/"+name, fmt.Sprintf("%s() lists %s twice", name, e.id), e)
			bad = true
			continue
		}
		pos[e] = i
		pl = append(pl, e)
	}
	if len(pos) != len(v.ents) {
		var miss *pent
		for _, e := range v.ents {
			if _, ok := pos[e]; !ok {
				miss = e
				break
			}
		}
		if miss != nil {
			add("listing-misses-pooled-tx/"+name, fmt.Sprintf("%s() lists %d of %d pooled txs; e.g. %s is missing", name, len(pos), len(v.ents), miss.id), miss)
			bad = true
		}
	}
	for _, e := range pl {
		for _, p := range e.par {
			if pp, ok := pos[p]; ok && pp > pos[e] {
				add("listing-child-before-parent/"+name, fmt.Sprintf("%s() lists child %s (pos %d) before its parent %s (pos %d)", name, e.id, pos[e], p.id, pp), e, p)
				bad = true
				break
			}
		}
		if bad {
			break
		}
	}
	if bad {
		return pl
	}
	return pl
}

// walkRejected recomputes the indexes of the reject cache / orphan store.
func (h *hist) walkRejected(v *pview, add func(string, string, ...*pent)) {
	wantRSO := map[uint64][]string{}
	wantW4 := map[btc.BIDX][]string{}
	var sumFoot, sumW4 uint64
	for bidx, txr := range txpool.TransactionsRejected {
		if txr == nil {
			add("rejected-entry-nil", fmt.Sprintf("TransactionsRejected[%x] is nil", bidx[:]))
			continue
		}
		if txr.Id.BIdx() != bidx {
			add("rejected-key-mismatch", fmt.Sprintf("rejected tx %s stored under key %x", txr.Id.String(), bidx[:]))
		}
		if e := v.byID[Hash(txr.Id.Hash)]; e != nil {
			add("tx-both-pooled-and-rejected", fmt.Sprintf("tx %s is in TransactionsToSend and in TransactionsRejected (reason %d)", e.id, txr.Reason), e)
		}
		if int(txr.ArrIndex) >= len(txpool.TRIdxArray) || txpool.TRIdxArray[txr.ArrIndex] != bidx {
			add("rejected-ring-mismatch", fmt.Sprintf("rejected tx %s: TRIdxArray[%d] does not point back to it", txr.Id.String(), txr.ArrIndex))
		}
		sumFoot += uint64(txr.Footprint)
		if txr.Tx != nil {
			for _, in := range txr.TxIn {
				k := in.Input.UIdx()
				wantRSO[k] = append(wantRSO[k], string(bidx[:]))
			}
			if txr.Waiting4 != nil {
				k := txr.Waiting4.BIdx()
				wantW4[k] = append(wantW4[k], string(bidx[:]))
				sumW4 += uint64(txr.Footprint)
				if txr.Reason != txpool.TX_REJECTED_NO_TXOU {
					add("waiting-entry-wrong-reason", fmt.Sprintf("rejected tx %s waits for a parent but has reason %d", txr.Id.String(), txr.Reason))
				}
				if v.byID[Hash(txr.Waiting4.Hash)] != nil {
					h.run.Inc("aux_orphan_waits_for_pooled_parent")
				}
			}
		} else if txr.Waiting4 != nil {
			add("waiting-entry-without-data", fmt.Sprintf("rejected tx %s waits for a parent but holds no tx data", txr.Id.String()))
		}
	}
	eq := func(a []string, b []btc.BIDX) bool {
		if len(a) != len(b) {
			return false
		}
		bs := make([]string, len(b))
		for i := range b {
			bs[i] = string(b[i][:])
		}
		as := append([]string{}, a...)
		sort.Strings(as)
		sort.Strings(bs)
		for i := range as {
			if as[i] != bs[i] {
				return false
			}
		}
		return true
	}
	n := 0
	for k, got := range txpool.RejectedSpentOutputs {
		if !eq(wantRSO[k], got) && n == 0 {
			add("rejected-spent-index-mismatch", fmt.Sprintf("RejectedSpentOutputs[%016x] lists %d txs, recomputation %d", k, len(got), len(wantRSO[k])))
			n++
		}
	}
	for k, w := range wantRSO {
		if _, ok := txpool.RejectedSpentOutputs[k]; !ok && n == 0 {
			add("rejected-spent-index-mismatch", fmt.Sprintf("RejectedSpentOutputs lacks key %016x used by %d rejected txs", k, len(w)))
			n++
		}
	}
	n = 0
	for k, got := range txpool.WaitingForInputs {
		if got == nil {
			add("waiting-index-mismatch", fmt.Sprintf("WaitingForInputs[%x] is nil", k[:]))
			continue
		}
		if !eq(wantW4[k], got.Ids) && n == 0 {
			add("waiting-index-mismatch", fmt.Sprintf("WaitingForInputs[%x] lists %d txs, recomputation %d", k[:], len(got.Ids), len(wantW4[k])))
			n++
		}
	}
	for k, w := range wantW4 {
		if _, ok := txpool.WaitingForInputs[k]; !ok && n == 0 {
			add("waiting-index-mismatch", fmt.Sprintf("WaitingForInputs lacks key %x awaited by %d rejected txs", k[:], len(w)))
			n++
		}
	}
	if txpool.TransactionsRejectedSize != sumFoot {
		add("rejected-size-mismatch", fmt.Sprintf("TransactionsRejectedSize %d, sum of footprints %d", txpool.TransactionsRejectedSize, sumFoot))
	}
	if txpool.WaitingForInputsSize != sumW4 {
		add("waiting-size-mismatch", fmt.Sprintf("WaitingForInputsSize %d, sum of footprints of waiting txs %d", txpool.WaitingForInputsSize, sumW4))
	}
	h.run.Count("rejected_entries_walked", int64(len(txpool.TransactionsRejected)))
}

// dryRun assembles a block from the listing (longest prefix within the weight limit) on the
// current tip and runs the node's own validation on it without connecting it:
// NewBlock + CheckBlock + ProcessBlockTransactions, with the mempool script shortcut
// (chain.TrustedTxChecker) switched off so that scripts are really verified.
func (h *hist) dryRun(list []*pent) (stage, errs string) {
	b := h.blockFrom(list, nil)
	raw := b.Serialize()
	delete(h.g.Blocks, b.Hash())
	bl, er := btc.NewBlock(raw)
	if er != nil {
		return "decode", er.Error()
	}
	ch := h.node.Ch
	ch.BlockIndexAccess.Lock()
	_, _, er = ch.CheckBlock(bl)
	ch.BlockIndexAccess.Unlock()
	if er != nil {
		return "check", er.Error()
	}
	saved := chain.TrustedTxChecker
	chain.TrustedTxChecker = nil
	_, _, er = ch.ProcessBlockTransactions(bl, bl.Height, bl.Height)
	chain.TrustedTxChecker = saved
	if er != nil {
		return "connect", er.Error()
	}
	return "ok", ""
}

// blockFrom builds a block on the reference tip from pooled entries (prefix within the weight
// limit; txs non-final at the next height are skipped together with their descendants, as the
// node's own template builder does) followed by extra (already built) transactions.
func (h *hist) blockFrom(list []*pent, extra []*genTx) *refchain.Block {
	var txs []*refchain.Tx
	var fees uint64
	w := 4000
	height := h.ref.Tip.Height + 1
	skipped := map[Hash]bool{}
	for _, e := range list {
		if w+e.weight > 3900000 {
			break
		}
		t := toRef(e.rt)
		skip := !refchain.IsFinal(t, height, h.ref.Tip.MTP())
		for _, p := range e.par {
			if skipped[p.id] {
				skip = true
			}
		}
		if skip {
			skipped[e.id] = true
			continue
		}
		w += e.weight
		txs = append(txs, t)
		if e.feeOK {
			fees += e.fee
		}
	}
	for _, x := range extra {
		txs = append(txs, x.t)
		fees += x.fee
	}
	return h.g.Build(chainsim.BlockSpec{Parent: h.ref.Tip, Txs: txs, Fees: fees, CoinbaseKind: chainsim.KTrue})
}

func normErr(s string) string {
	for _, m := range [][2]string{
		{"double spend inside the block", "double-spend-inside-block"},
		{"Unknown input TxID", "unknown-input"},
		{"vout already spent", "vout-already-spent"},
		{"out too big", "vout-too-big"},
		{"more spent", "in-below-out"},
		{"VerifyScripts failed", "script-verification-failed"},
		{"prematured coinbase", "premature-coinbase-spend"},
		{"own coinbase", "spends-own-coinbase"},
	} {
		if strings.Contains(s, m[0]) {
			return m[1]
		}
	}
	if i := strings.Index(s, "RPC_Result:"); i >= 0 {
		return slug(s[i+len("RPC_Result:"):])
	}
	if strings.HasPrefix(s, "out:") {
		return "coinbase-claims-more-than-fees"
	}
	return slug(s)
}
