package main

// Families that reach recorded (known) findings. They are enabled only in one history out of five
// and only in its second half (or everywhere with C12_POISON=<kind>, a triage aid), so that a known
// finding never cuts off the exploration of everything else.

import (
	"os"

	"verif/mon/chainsim"
	"verif/ref/refchain"
)

var poisonKinds = []string{"dup-input", "rbf-spends-replaced", "no-outputs", "output-overflow", "deep-reorg", "orphan-of-missing-output", "orphan-of-spent-output"}

func (h *hist) stepPoison() bool {
	k := poisonKinds[h.r.Intn(len(poisonKinds))]
	if f := os.Getenv("C12_POISON"); f != "" && f != "all" {
		k = f
	}
	h.run.Inc("poison/" + k)
	fc := h.freeConfirmed()
	if len(fc) == 0 {
		return true
	}
	switch k {
	case "dup-input":
		// the same outpoint in two inputs
		op := h.take(&fc, 1)[0]
		ins := []OP{op, op}
		if h.r.Intn(3) == 0 && len(fc) > 0 {
			ins = append(ins, h.take(&fc, 1)...)
		}
		x := h.build(ins, bopt{family: "dup-input", fee: h.randFee(), bad: -1})
		x.poison = k
		h.sub(x, h.path())
	case "rbf-spends-replaced":
		// T conflicts with pooled A (spends one of A's confirmed inputs) and also spends an output of A
		var a *pent
		var u, o OP
		for _, e := range h.v.ents {
			var us, os_ []OP
			for _, op := range e.ins {
				if _, ok := h.ref.Utxo[op]; ok {
					us = append(us, op)
				}
			}
			for oi, ot := range e.rt.Out {
				op := OP{Hash: e.id, Idx: uint32(oi)}
				if len(h.v.spent[op]) == 0 && len(ot.PkScript) < 100 && h.spendableScript(ot.PkScript) {
					os_ = append(os_, op)
				}
			}
			if len(us) > 0 && len(os_) > 0 && !e.dupIn {
				a, u, o = e, us[h.r.Intn(len(us))], os_[h.r.Intn(len(os_))]
				if h.r.Intn(3) == 0 {
					break
				}
			}
		}
		if a == nil {
			h.stepSimple()
			return true
		}
		ins := []OP{u, o}
		if h.r.Intn(2) == 0 {
			ins = []OP{o, u}
		}
		if h.r.Intn(3) == 0 && len(fc) > 0 {
			ins = append(h.take(&fc, 1), ins...)
		}
		// sometimes an output of an unrelated pooled tx goes in front of the output of the replaced tx
		if h.r.Intn(2) == 0 {
			desc := map[*pent]bool{a: true}
			for _, d := range h.v.descendants(a) {
				desc[d] = true
			}
			for _, op := range h.freePooled() {
				if e := h.v.byID[op.Hash]; e != nil && !desc[e] && e != a {
					ins = append([]OP{op}, ins...)
					break
				}
			}
		}
		x := h.build(ins, bopt{family: "rbf-spends-replaced", fee: a.fee*3 + 5000 + h.randFee(), bad: -1, nout: 1})
		x.poison = k
		h.sub(x, "net")
	case "no-outputs":
		x := h.build(h.take(&fc, 1), bopt{family: "no-outputs", bad: -1, outs: []refchain.TxOut{}})
		x.poison = k
		h.sub(x, h.path())
	case "output-overflow":
		ins := h.take(&fc, 1)
		c, _ := h.coin(ins[0])
		fee := h.randFee()
		if fee >= c.Value {
			fee = c.Value / 2
		}
		// two outputs whose 64-bit sum wraps around to (input - fee)
		outs := []refchain.TxOut{{Value: 1 << 63, Script: h.g.ScriptOf(chainsim.KTrue, h.r)}, {Value: 1<<63 + (c.Value - fee), Script: h.g.ScriptOf(chainsim.KTrue, h.r)}}
		x := h.build(ins, bopt{family: "output-overflow", bad: -1, outs: outs})
		x.poison = k
		h.sub(x, h.path())
	case "deep-reorg":
		return h.stepDeepReorg()
	case "orphan-of-missing-output":
		// an orphan that names an output index its (still unknown) parent does not have; then the
		// parent is mined
		p := h.build(h.take(&fc, 1), bopt{family: "orphan-parent-mined-later", fee: h.randFee(), bad: -1, nout: 2})
		op := OP{Hash: p.id, Idx: uint32(len(p.t.Out) + h.r.Intn(60))}
		h.known[op] = refchain.Coin{Value: 50000, Script: []byte{0x51}}
		c := h.build([]OP{op}, bopt{family: "orphan-of-missing-output", fee: 500, bad: -1, nout: 1})
		delete(h.known, op)
		c.poison = k
		if h.sub(c, "net"); h.stopped {
			return true
		}
		if h.r.Intn(3) == 0 { // the parent reaches the pool first: harmless (BAD_INPUT when retried)
			if h.sub(p, "net"); h.stopped {
				return true
			}
			return h.stepMinePool(true)
		}
		b := h.blockFrom(nil, []*genTx{p})
		return h.deliver(b, "parent-of-bad-orphan", true)
	case "orphan-of-spent-output":
		// an orphan of an output that the chain has already spent; a reorganisation then mines the
		// parent and the spender again
		var spentOnes []OP
		for n, j := h.ref.Tip, 0; n != nil && n.Block != nil && j < 3; n, j = n.Parent, j+1 {
			for _, t := range n.Block.Txs[1:] {
				for _, in := range t.In {
					if _, ok := h.known[in.Prev]; ok {
						spentOnes = append(spentOnes, in.Prev)
					}
				}
			}
		}
		if len(spentOnes) == 0 {
			return h.stepMineMixed()
		}
		x := h.build([]OP{spentOnes[h.r.Intn(len(spentOnes))]}, bopt{family: "orphan-of-spent-output", fee: 900, bad: -1, nout: 1})
		x.poison = k
		if h.sub(x, h.path()); h.stopped {
			return true
		}
		return h.stepReorg()
	}
	return true
}

// stepDeepReorg: a pooled tx spends the coinbase that matured last; then a competing branch
// disconnects the block that created that coinbase (100 blocks deep).
func (h *hist) stepDeepReorg() bool {
	tip := h.ref.Tip
	if tip.Height < 101 {
		return true
	}
	hc := tip.Height - 99 // coinbase of this height is spendable in the next block
	n := tip.Ancestor(hc)
	cb := n.Block.Txs[0]
	op := OP{Hash: cb.TxID(), Idx: 0}
	c, ok := h.ref.Utxo[op]
	if !ok || !h.spendableScript(c.Script) || len(h.v.spent[op]) != 0 {
		h.run.Inc("gen_deep_reorg_not_possible")
		return true
	}
	x := h.build([]OP{op}, bopt{family: "spends-just-matured-coinbase", fee: h.randFee(), bad: -1})
	x.poison = "deep-reorg"
	if h.sub(x, "net") != 0 || h.stopped {
		return true
	}
	parent := n.Parent
	need := int(tip.Height-parent.Height) + 1
	for i := 0; i < need; i++ {
		b := h.g.Build(chainsim.BlockSpec{Parent: parent, CoinbaseKind: chainsim.KTrue})
		if !h.deliver(b, "deep-reorg-branch", false) {
			return false
		}
		nn := h.ref.Nodes[b.Hash()]
		if nn == nil {
			h.lastDeliver = "generator: deep branch block unknown to the reference"
			return false
		}
		parent = nn
	}
	if h.ref.Tip != parent {
		h.lastDeliver = "generator: deep reorganisation did not happen in the reference"
		return false
	}
	h.run.Inc("deep_reorgs")
	return true
}
