// C12 — the mempool stays conflict-free, spendable and internally consistent.
//
// One child process per history. The child wires client/txpool exactly like client/main.go +
// init.go do (common.InitConfig on a config file in a temp dir, common.BlockChain = a regtest-like
// chain opened with BlockMinedCB=txpool.BlockMined / BlockUndoneCB=txpool.BlockUndone, common.Last,
// txpool.InitMempool, chain.TrustedTxChecker as installed by txpool's init) and drives a seeded random
// history of submissions (network path NeedThisTxExt -> HandleNetTx, local path, trusted), chains,
// diamonds, orphans, RBF replacements, invalid transactions, mined blocks, reorganisations, ticks
// (expiry with back-dated Lastseen, eviction at the size limit) and save/reload.
//
// Files: main.go (parent: budgets, child processes, death classification), harness.go (wiring,
// delivery, submission paths, watchdog, reporting), gen.go (history steps / transaction families),
// poison.go (families that reach recorded findings; 1 history in 5, second half only), walk.go (oracle).
// Triage aids (environment): C12_HISTORIES, C12_STEPS, C12_FIRST=<first history index>,
// C12_POISON=<kind|all> (poison families everywhere from step 1), C12_ONLY=<step kind>, C12_CPUPROFILE.
//
// Oracle: an invariant walker (walk.go) that recomputes everything from the exported maps of txpool,
// the node's UTXO dump and the independent codec /verif/ref/reftx. txpool.MempoolCheck() is run as
// auxiliary evidence only.
package main

import (
	"fmt"
	"os"
	"sort"
	"strings"
	"time"

	"verif/lib/vlib"
	"verif/ref/reftx"
)

const ID = "C12"

func main() {
	if len(os.Args) > 1 && os.Args[1] == "child" {
		childMain(os.Args[2:])
		return
	}
	run := vlib.Start(ID, "exploration")
	// calibration of the trusted base
	if st, err := reftx.Calibrate("/repo/lib/test"); err != nil {
		fmt.Printf("BROKEN property=%s reftx calibration failed: %v\n", ID, err)
		os.Exit(2)
	} else {
		run.Extra("reftx_calibration", fmt.Sprintf("%+v", st))
	}
	tmp, _ := os.MkdirTemp("", "c12")
	defer os.RemoveAll(tmp)

	histories := run.N(40, 5000)
	steps := 150
	if v := os.Getenv("C12_HISTORIES"); v != "" {
		fmt.Sscan(v, &histories)
	}
	if v := os.Getenv("C12_STEPS"); v != "" {
		fmt.Sscan(v, &steps)
	}
	first := 0
	if v := os.Getenv("C12_FIRST"); v != "" { // replay aid: run histories first..first+histories-1
		fmt.Sscan(v, &first)
	}
	workers := run.N(10, 12)
	vlib.Parallel(histories, workers, func(k int) {
		i := first + k
		base := fmt.Sprintf("%s/h%d", tmp, i)
		args := []string{"child", fmt.Sprint(run.Seed), run.Tier, fmt.Sprint(i), fmt.Sprint(steps), base}
		res := vlib.RunChild("", args, nil, nil, 20*time.Minute)
		desc := map[string]interface{}{"history": i, "seed": run.Seed, "steps": steps,
			"replay": fmt.Sprintf("VERIF_SEED=%d C12_FIRST=%d C12_HISTORIES=1 C12_STEPS=%d bin/c12.main %s", run.Seed, i, steps, run.Tier)}
		if res.TimedOut {
			run.Inconclusive("child watchdog fired: %v", desc)
			return
		}
		okState := run.ImportState(base + ".state")
		done, _ := os.ReadFile(base + ".done")
		if res.ExitCode != 0 || !okState || len(done) == 0 {
			errTail := tailFile(base+".stderr", 6000)
			desc["stderr_tail"] = errTail
			desc["stdout_tail"] = vlib.Tail(res.Out, 2000)
			desc["journal_tail"] = tailLines(base+".journal", 25, 3000)
			cls := deathClass(errTail+"\n"+string(res.Out), res.ExitCode, res.Signal)
			run.Violation(cls, fmt.Sprintf("the process died inside a history (exit %d %s): panic / os.Exit / fatal error with txpool wired into the node", res.ExitCode, res.Signal), desc)
			return
		}
		run.Inc("histories")
		if string(done) == "stalled" || string(done) == "harness-panic" {
			run.Inc("histories_abandoned")
		} else if string(done) == "completed" {
			run.Inc("histories_completed")
		} else {
			run.Inc("histories_stopped_at_first_violation")
		}
	})
	os.RemoveAll(tmp) // (Finish exits the process: deferred calls do not run)
	run.Assume("script validity of generated inputs is ground truth by construction (chainsim signer); confirmed state = the node's own UTXO dump; tx fields, ids, sizes come from /verif/ref/reftx")
	run.Assume("transactions whose script fails by construction are submitted through the untrusted network path only: the trusted-peer and the local path skip script verification by design, and chain.TrustedTxChecker then lets a block with such a tx pass")
	run.Assume("64-bit index collisions (BIDX / UIdx truncations of txids) are not generated")
	run.Assume("expiry is reached by back-dating Lastseen and the (unexported, go:linkname'd) next-expiry time; no other internal of txpool is written by the harness except Lastseen")
	run.Finish("each evaluation = one invariant walk over the live pool (after every submission / block / tick / reload of a random history); deciding oracle = walker recomputation from exported maps + UTXO dump + reftx; listing order and a dry-run block (CheckBlock + ProcessBlockTransactions without the mempool shortcut) at the configured cadence; distinct_nontrivial = distinct (step kind, path, outcome, pool-size bucket, parents bucket) tuples",
		"walks", "step_outcomes", run.N(60, 120))
}

func tailFile(path string, n int) string {
	b, err := os.ReadFile(path)
	if err != nil {
		return ""
	}
	return vlib.Tail(b, n)
}

func tailLines(path string, n, maxLine int) []string {
	b, err := os.ReadFile(path)
	if err != nil {
		return nil
	}
	l := strings.Split(strings.TrimRight(string(b), "\n"), "\n")
	if len(l) > n {
		l = l[len(l)-n:]
	}
	for i := range l {
		if len(l[i]) > maxLine {
			l[i] = l[i][:maxLine] + "...(cut)"
		}
	}
	return l
}

// deathClass derives a stable class from what a dead child printed.
func deathClass(out string, code int, sig string) string {
	if i := strings.Index(out, "panic: "); i >= 0 {
		return "child-panic/" + firstTxpoolFrame(out[i:])
	}
	if i := strings.Index(out, "fatal error: "); i >= 0 {
		line := out[i+13:]
		if j := strings.IndexByte(line, '\n'); j >= 0 {
			line = line[:j]
		}
		return "child-fatal/" + slug(line)
	}
	for _, m := range []string{"TxUnmineFail", "Trying to delete already deleted tx", "TXPool not OK after loading"} {
		if strings.Contains(out, m) {
			return "os-exit/" + slug(m)
		}
	}
	if sig != "" {
		return "child-died/signal-" + slug(sig)
	}
	return fmt.Sprintf("child-died/exit-%d", code)
}

func firstTxpoolFrame(stack string) string {
	for _, ln := range strings.Split(stack, "\n") {
		ln = strings.TrimSpace(ln)
		if i := strings.Index(ln, "client/txpool."); i >= 0 && !strings.Contains(ln, ".go:") {
			f := ln[i+len("client/txpool."):]
			if j := strings.IndexByte(f, '('); j >= 0 && !strings.HasPrefix(f, "(") {
				f = f[:j]
			} else if strings.HasPrefix(f, "(") {
				// method: (*OneTxToSend).findWorstParent(...)
				if j := strings.Index(f, ")."); j >= 0 {
					rest := f[j+2:]
					if k := strings.IndexByte(rest, '('); k >= 0 {
						rest = rest[:k]
					}
					f = strings.Trim(f[:j], "(*") + "." + rest
				}
			}
			return slug(f)
		}
	}
	return "outside-txpool"
}

func slug(s string) string {
	var b strings.Builder
	for _, c := range strings.ToLower(strings.TrimSpace(s)) {
		switch {
		case (c >= 'a' && c <= 'z') || (c >= '0' && c <= '9') || c == '.' || c == '_':
			b.WriteRune(c)
		default:
			if b.Len() > 0 && !strings.HasSuffix(b.String(), "-") {
				b.WriteByte('-')
			}
		}
	}
	r := strings.Trim(b.String(), "-")
	if len(r) > 60 {
		r = r[:60]
	}
	return r
}

func sortedKeys(m map[string]int) []string {
	l := make([]string, 0, len(m))
	for k := range m {
		l = append(l, k)
	}
	sort.Strings(l)
	return l
}
