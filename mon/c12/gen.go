package main

// History generator: step kinds and transaction families. Everything random comes from h.r.
// The generator may read the pool (through the last walker view) to choose what to build; it never
// decides a verdict - the walker does.

import (
	"bytes"
	"fmt"
	"os"
	"sort"
	"time"

	"github.com/piotrnar/gocoin/client/common"
	"github.com/piotrnar/gocoin/lib/btc"
	"github.com/piotrnar/gocoin/client/txpool"
	"verif/mon/chainsim"
	"verif/ref/refchain"
)

type bopt struct {
	family  string
	nout    int
	fee     uint64
	bad     int // input index whose script is made invalid, -1 none
	seqs    []uint32
	version uint32
	lock    uint32
	pad     int // bytes of data in an extra OP_RETURN output
	outs    []refchain.TxOut
	noReg   bool
}

func (h *hist) coin(op OP) (refchain.Coin, bool) {
	if c, ok := h.ref.Utxo[op]; ok {
		return c, true
	}
	if c, ok := h.known[op]; ok {
		return c, true
	}
	if h.v != nil {
		if e := h.v.byID[op.Hash]; e != nil && int(op.Idx) < len(e.rt.Out) {
			return refchain.Coin{Value: uint64(e.rt.Out[op.Idx].Value), Script: e.rt.Out[op.Idx].PkScript}, true
		}
	}
	return refchain.Coin{}, false
}

func (h *hist) spendableScript(s []byte) bool {
	k, _ := h.g.KindOf(s)
	return k != chainsim.KOpReturn && k != chainsim.KOther
}

// confirmed coins free to use: mature, spendable kind, not spent by the pool, not reserved
func (h *hist) freeConfirmed() []OP {
	l := h.g.Spendable(h.ref.Utxo, h.ref.Tip.Height+1, true)
	out := l[:0]
	for _, op := range l {
		if len(h.v.spent[op]) == 0 && !h.reserved[op] {
			out = append(out, op)
		}
	}
	return out
}

// outputs of pooled txs not spent in the pool
func (h *hist) freePooled() []OP {
	var l []OP
	for _, e := range h.v.ents {
		if len(e.rt.Out) > 40 {
			continue
		}
		for oi, o := range e.rt.Out {
			op := OP{Hash: e.id, Idx: uint32(oi)}
			if len(h.v.spent[op]) == 0 && !h.reserved[op] && len(o.PkScript) < 100 && h.spendableScript(o.PkScript) {
				l = append(l, op)
			}
		}
	}
	return l
}

func (h *hist) take(l *[]OP, n int) []OP {
	var res []OP
	for i := 0; i < n && len(*l) > 0; i++ {
		j := h.r.Intn(len(*l))
		res = append(res, (*l)[j])
		(*l)[j] = (*l)[len(*l)-1]
		*l = (*l)[:len(*l)-1]
	}
	return res
}

func (h *hist) outScript() []byte {
	k := []chainsim.Kind{chainsim.KTrue, chainsim.KTrue, chainsim.KTrue, chainsim.KTrue, chainsim.KP2SHTrue, chainsim.KP2WSHTrue, chainsim.KP2WSHTrue,
		chainsim.KP2PKH, chainsim.KP2PKH, chainsim.KP2WPKH, chainsim.KP2WPKH, chainsim.KTrue, chainsim.KTrue, chainsim.KOpReturn, chainsim.KOther}
	return h.g.ScriptOf(k[h.r.Intn(len(k))], h.r)
}

func padScript(r interface{ Bytes(int) []byte }, n int) []byte {
	s := []byte{0x6a, 0x4e, byte(n), byte(n >> 8), byte(n >> 16), byte(n >> 24)}
	return append(s, r.Bytes(n)...)
}

func (h *hist) build(ins []OP, o bopt) *genTx {
	coins := make([]refchain.Coin, len(ins))
	var sum uint64
	for i, op := range ins {
		c, ok := h.coin(op)
		if !ok {
			panic(fmt.Sprintf("harness: unknown coin %s:%d", op.Hash, op.Idx))
		}
		coins[i] = c
		sum += c.Value
	}
	outs := o.outs
	if outs == nil {
		fee := o.fee
		if fee >= sum {
			fee = sum / 2
		}
		rest := sum - fee
		if o.pad > 0 {
			outs = append(outs, refchain.TxOut{Value: 0, Script: padScript(h.r, o.pad)})
		}
		n := o.nout
		if n == 0 {
			n = 1 + h.r.Intn(3)
		}
		for i := 0; i < n; i++ {
			v := rest
			if i < n-1 {
				v = rest / uint64(2+h.r.Intn(3))
			}
			rest -= v
			outs = append(outs, refchain.TxOut{Value: v, Script: h.outScript()})
		}
	}
	ver := o.version
	if ver == 0 {
		ver = 1 + uint32(h.r.Intn(2))
	}
	seqs := o.seqs
	if seqs == nil && h.r.Intn(3) == 0 {
		seqs = make([]uint32, len(ins))
		for i := range seqs {
			seqs[i] = 0xffffffff - uint32(h.r.Intn(3))
		}
	}
	t := h.g.Spend(ins, coins, outs, ver, o.lock, seqs, o.bad)
	x := &genTx{t: t, raw: t.Serialize(true), id: t.TxID(), family: o.family, badScript: o.bad >= 0}
	var so uint64
	for _, ot := range outs {
		so += ot.Value
	}
	if sum >= so {
		x.fee = sum - so
	}
	if !o.noReg {
		h.gen[x.id] = x
		h.genList = append(h.genList, x)
		for i, ot := range outs {
			if len(ot.Script) < 100 {
				h.known[OP{Hash: x.id, Idx: uint32(i)}] = refchain.Coin{Value: ot.Value, Script: ot.Script}
			}
		}
	}
	return x
}

func (h *hist) randFee() uint64 {
	switch h.r.Intn(6) {
	case 0:
		return uint64(1 + h.r.Intn(50))
	case 1:
		return uint64(20000 + h.r.Intn(200000))
	}
	return uint64(150 + h.r.Intn(6000))
}

func (h *hist) path() string {
	if h.prof.noMemIn {
		return []string{"net", "net-trusted", "local", "net-trusted"}[h.r.Intn(4)]
	}
	switch h.r.Intn(10) {
	case 0:
		return "local"
	case 1, 2:
		return "net-trusted"
	}
	return "net"
}

// sub = submit + cheap walk. Returns the result code.
func (h *hist) sub(x *genTx, path string) int {
	if h.stopped {
		return -1
	}
	res := h.submit(x, path)
	h.check(false)
	return res
}

// ---- the history --------------------------------------------------------------------------

func min(a, b int) int {
	if a < b {
		return a
	}
	return b
}

type kindW struct {
	name string
	w    int
}

func (h *hist) pickKind() string {
	ks := []kindW{{"simple", 16}, {"child", 18}, {"chain", 5}, {"diamond", 4}, {"orphan", 8}, {"flush-queue", 7},
		{"rbf", 11}, {"fan", 3}, {"invalid", 8}, {"resubmit", 3}, {"mine-pool", 3}, {"mine-mixed", 6}, {"reorg", 3},
		{"tick", 3}, {"save-load", 2}, {"rank-squeeze", 1}}
	if h.prof.evict {
		ks = append(ks, kindW{"big", 70})
	}
	if h.poisonOn {
		ks = append(ks, kindW{"poison", 8})
	}
	tot := 0
	for _, k := range ks {
		tot += k.w
	}
	x := h.r.Intn(tot)
	for _, k := range ks {
		if x < k.w {
			return k.name
		}
		x -= k.w
	}
	return "simple"
}

func (h *hist) runHistory() (violated bool) {
	h.kind = "start"
	if !h.check(true) {
		return true
	}
	for h.step = 1; h.step <= h.steps; h.step++ {
		h.poisonOn = h.prof.poison || os.Getenv("C12_POISON") != ""
		h.kind = h.pickKind()
		if f := os.Getenv("C12_ONLY"); f != "" { // triage aid
			h.kind = f
		}
		h.run.Inc("steps")
		h.run.Inc("step/" + h.kind)
		ok := h.doStep()
		if h.stopped {
			return true
		}
		if !ok {
			h.run.Inconclusive("history %d step %d (%s): node and reference chain disagree (%s) - outside C12, history abandoned", h.prof.idx, h.step, h.kind, cut(h.lastDeliver, 300))
			return false
		}
		if !h.check(h.step%h.prof.listEvery == 0) {
			return true
		}
		if h.step%30 == 0 {
			h.run.ExportState(h.base + ".state")
		}
	}
	// the end: everything that is pooled must be minable
	h.kind = "final-mine"
	for i := 0; i < 3 && len(h.v.ents) > 0; i++ {
		if ok := h.stepMinePool(true); h.stopped {
			return true
		} else if !ok {
			h.run.Inconclusive("history %d final mining: node and reference chain disagree (%s)", h.prof.idx, cut(h.lastDeliver, 300))
			return false
		}
		if !h.check(true) {
			return true
		}
	}
	if len(h.v.ents) == 0 {
		h.run.Inc("histories_ending_with_empty_pool")
	}
	if h.run.WantSample() && h.prof.idx%7 == 0 {
		h.run.Sample(map[string]interface{}{"history": h.prof.idx, "profile": fmt.Sprintf("%+v", h.prof), "steps": h.steps,
			"largest_pool_walked": h.maxPool, "final_height": h.ref.Tip.Height, "reorgs_in_reference": h.ref.Reorgs,
			"txs_generated": len(h.genList), "last_journal_lines": append([]string{}, h.jtail[len(h.jtail)-min(4, len(h.jtail)):]...)})
	}
	for k, c := range common.Counter {
		switch k {
		case "TxPurgedSizCnt", "TxPoolExpParent", "TxPoolExpChild", "TxRetryAccepted", "TxUnmineOK", "TxMinedAccepted", "TxPkgsAddAppend", "TxPkgsAddNew", "TxPkgsDelTx", "TxSortBuildNeeded", "TxRLimNoUtxoCount", "TxRLimSizCount":
			h.run.Count("txpool_counter/"+k, int64(c))
		}
	}
	return false
}

func (h *hist) doStep() bool {
	if h.r.Intn(6) == 0 && !txpool.LastSortingDone.IsZero() {
		// nobody has asked for a fee-sorted listing for more than AUTO_FEE_PKGS_SUSPEND_AFTER: the incremental upkeep of the
		// fee packages suspends itself; whatever this step changes has to show in the next listing all the same
		txpool.TxMutex.Lock()
		txpool.LastSortingDone = time.Now().Add(-txpool.AUTO_FEE_PKGS_SUSPEND_AFTER - time.Minute)
		txpool.TxMutex.Unlock()
		h.note("idle: last listing back-dated beyond the fee-package suspend time")
		h.run.Inc("steps_after_an_idle_period_without_listings")
	}
	switch h.kind {
	case "simple":
		h.stepSimple()
	case "child":
		h.stepChild()
	case "chain":
		h.stepChain()
	case "diamond":
		h.stepDiamond()
	case "orphan":
		h.stepOrphan()
	case "flush-queue":
		h.stepFlush()
	case "rbf":
		h.stepRBF(nil, "")
	case "fan":
		h.stepFan()
	case "invalid":
		h.stepInvalid()
	case "resubmit":
		h.stepResubmit()
	case "mine-pool":
		return h.stepMinePool(false)
	case "mine-mixed":
		return h.stepMineMixed()
	case "reorg":
		return h.stepReorg()
	case "rank-squeeze":
		h.stepRankSqueeze()
	case "tick":
		h.stepTick()
	case "save-load":
		h.stepSaveLoad()
	case "big":
		h.stepBig()
	case "poison":
		return h.stepPoison()
	}
	return true
}

func (h *hist) stepSimple() {
	fc := h.freeConfirmed()
	if len(fc) == 0 {
		h.run.Inc("gen_no_free_confirmed")
		return
	}
	ins := h.take(&fc, 1+h.r.Intn(3))
	if h.r.Intn(15) == 0 {
		// not final at the next height: the pool takes it, the node's own block assembler skips it
		sq := make([]uint32, len(ins))
		for i := range sq {
			sq[i] = 0xfffffffe
		}
		h.sub(h.build(ins, bopt{family: "nonfinal-locktime", fee: h.randFee(), bad: -1, lock: h.ref.Tip.Height + 3 + uint32(h.r.Intn(40)), seqs: sq}), h.path())
		return
	}
	h.sub(h.build(ins, bopt{family: "simple", fee: h.randFee(), bad: -1}), h.path())
}

// stepRankSqueeze: some fifty independent transactions, each with a fee rate a little below the one before and above
// a cheap one submitted first: every one of them is sorted in right above the cheap one, into the same shrinking gap of
// the incrementally kept sort ranks. Then a child of the last two (the better-listed parent named first) that pays
// more than either.
func (h *hist) stepRankSqueeze() {
	fc := h.freeConfirmed()
	if len(fc) < 62 {
		// not enough independent coins: split a rich one into 64 and have that confirmed first (a mined block rebuilds the
		// sorted list, the squeeze starts from a fresh one)
		var rich []OP
		for _, op := range fc {
			if c, _ := h.coin(op); c.Value > 64*300000 {
				rich = append(rich, op)
			}
		}
		if len(rich) == 0 {
			h.stepSimple()
			return
		}
		c, _ := h.coin(rich[0])
		outs := make([]refchain.TxOut, 64)
		for i := range outs {
			outs[i] = refchain.TxOut{Value: (c.Value - 20000) / 64, Script: h.outScript()}
		}
		split := h.build(rich[:1], bopt{family: "squeeze-splitter", bad: -1, outs: outs, version: 2})
		if !h.deliver(h.blockFrom(nil, []*genTx{split}), "squeeze-splitter", true) {
			return
		}
		h.check(false)
		if h.stopped {
			return
		}
		fc = h.freeConfirmed()
		if len(fc) < 62 {
			h.stepSimple()
			return
		}
	}
	// someone asks for the sorted listing: from here on the list is kept up to date incrementally (insertions by rank)
	txpool.TxMutex.Lock()
	txpool.GetSortedMempool()
	dirty := txpool.SortListDirty
	txpool.TxMutex.Unlock()
	if !dirty {
		h.run.Inc("rank_squeezes_on_incrementally_kept_list")
	}
	n := 58
	// sat per 1000 vbytes: far above what the rest of the pool pays, strictly decreasing by more than the rounding of a fee
	// to whole satoshis can blur
	rateOf := func(k int) uint64 { // 2 % less each time: more than signature-length and rounding differences can blur
		v := 500000.0
		for i := 0; i < k; i++ {
			v *= 0.98
		}
		return uint64(v)
	}
	mk := func(ins []OP, rate uint64, fam string) *genTx {
		var sum uint64
		for _, op := range ins {
			c, _ := h.coin(op)
			sum += c.Value
		}
		scr := h.outScript()
		probe := h.build(ins, bopt{family: "squeeze-probe", bad: -1, noReg: true, version: 2, outs: []refchain.TxOut{{Value: sum / 2, Script: scr}}})
		fee := (rate*vsizeOf(probe.t) + 999) / 1000
		if fee >= sum {
			fee = sum / 2
		}
		return h.build(ins, bopt{family: fam, bad: -1, version: 2, outs: []refchain.TxOut{{Value: sum - fee, Script: scr}}})
	}
	if h.sub(mk(h.take(&fc, 1), 50000, "squeeze-floor"), "net-trusted") != 0 || h.stopped {
		return
	}
	var last, prev *genTx
	accepted := 0
	for k := 0; k < n && !h.stopped; k++ {
		x := mk(h.take(&fc, 1), rateOf(k), "squeeze")
		if h.sub(x, "net-trusted") != 0 {
			continue
		}
		prev, last = last, x
		accepted++
	}
	h.run.Distinct("rank_squeeze_lengths", accepted)
	if h.stopped || prev == nil || last == nil {
		return
	}
	a, b := h.outsOf(prev), h.outsOf(last)
	if len(a) == 0 || len(b) == 0 {
		return
	}
	txpool.TxMutex.Lock()
	pa, pb := txpool.TransactionsToSend[btc.NewUint256(prev.id[:]).BIdx()], txpool.TransactionsToSend[btc.NewUint256(last.id[:]).BIdx()]
	if pa != nil && pb != nil {
		h.note("squeeze: ranks of the last two %d %d (gap %d), list dirty %v", pa.SortRank, pb.SortRank, pb.SortRank-pa.SortRank, txpool.SortListDirty)
		h.run.Distinct("rank_gap_between_the_last_two_squeezed", pb.SortRank-pa.SortRank)
	}
	txpool.TxMutex.Unlock()
	h.run.Inc("rank_squeezes_with_child")
	h.sub(mk([]OP{a[0], b[0]}, 700000, "squeeze-child"), "net-trusted")
}

func (h *hist) stepChild() {
	fp := h.freePooled()
	if len(fp) == 0 {
		h.stepSimple()
		return
	}
	ins := h.take(&fp, 1+h.r.Intn(3))
	fam := "child"
	if h.r.Intn(4) == 0 {
		fc := h.freeConfirmed()
		ins = append(ins, h.take(&fc, 1)...)
		fam = "child-mixed-inputs"
	}
	h.sub(h.build(ins, bopt{family: fam, fee: h.randFee(), bad: -1}), h.path())
}

// firstSpendable returns outputs of x the generator can spend
func (h *hist) outsOf(x *genTx) []OP {
	var l []OP
	for i, o := range x.t.Out {
		if len(o.Script) < 100 && h.spendableScript(o.Script) {
			l = append(l, OP{Hash: x.id, Idx: uint32(i)})
		}
	}
	return l
}

func (h *hist) stepChain() {
	fc := h.freeConfirmed()
	if len(fc) == 0 {
		return
	}
	n := 3 + h.r.Intn(22)
	var txs []*genTx
	ins := h.take(&fc, 1)
	for i := 0; i < n; i++ {
		x := h.build(ins, bopt{family: "chain", fee: h.randFee(), bad: -1, nout: 1 + h.r.Intn(2)})
		txs = append(txs, x)
		o := h.outsOf(x)
		if len(o) == 0 {
			break
		}
		ins = []OP{o[h.r.Intn(len(o))]}
	}
	order := make([]int, len(txs))
	for i := range order {
		order[i] = i
	}
	pth := "net"
	if h.prof.noMemIn {
		pth = "net-trusted"
	}
	switch h.r.Intn(5) {
	case 0: // children first: every tx but the first is an orphan until the root arrives
		for i, j := 0, len(order)-1; i < j; i, j = i+1, j-1 {
			order[i], order[j] = order[j], order[i]
		}
		for _, x := range txs {
			x.family = "chain-reversed"
		}
	case 1:
		order = h.r.Perm(len(txs))
		for _, x := range txs {
			x.family = "chain-shuffled"
		}
	}
	for _, i := range order {
		h.sub(txs[i], pth)
	}
}

func (h *hist) stepDiamond() {
	fc := h.freeConfirmed()
	if len(fc) == 0 {
		return
	}
	outs := func(v uint64) []refchain.TxOut {
		return []refchain.TxOut{{Value: v / 2, Script: h.g.ScriptOf(chainsim.KTrue, h.r)}, {Value: v/2 - 700, Script: h.g.ScriptOf(chainsim.KP2WPKH, h.r)}}
	}
	ins := h.take(&fc, 1)
	c, _ := h.coin(ins[0])
	if c.Value < 100000 {
		h.stepSimple()
		return
	}
	a := h.build(ins, bopt{family: "diamond", bad: -1, outs: outs(c.Value)})
	b := h.build([]OP{{Hash: a.id, Idx: 0}}, bopt{family: "diamond", bad: -1, fee: h.randFee(), nout: 1})
	cc := h.build([]OP{{Hash: a.id, Idx: 1}}, bopt{family: "diamond", bad: -1, fee: h.randFee(), nout: 2})
	bo, co := h.outsOf(b), h.outsOf(cc)
	txs := []*genTx{a, b, cc}
	if len(bo) > 0 && len(co) > 0 {
		d := h.build([]OP{bo[0], co[0]}, bopt{family: "diamond", bad: -1, fee: h.randFee()})
		txs = append(txs, d)
	}
	order := []int{0, 1, 2, 3}[:len(txs)]
	if h.r.Intn(3) == 0 {
		order = h.r.Perm(len(txs))
	}
	pth := "net"
	if h.prof.noMemIn {
		pth = "net-trusted"
	}
	for _, i := range order {
		h.sub(txs[i], pth)
	}
}

// orphan: the child (and sometimes a grandchild) arrives now, the parent is withheld in the queue
func (h *hist) stepOrphan() {
	var src []OP
	if fp := h.freePooled(); len(fp) > 0 && h.r.Intn(3) == 0 {
		src = h.take(&fp, 1)
	} else {
		fc := h.freeConfirmed()
		if len(fc) == 0 {
			return
		}
		src = h.take(&fc, 1)
	}
	p := h.build(src, bopt{family: "orphan-parent", fee: h.randFee(), bad: -1, nout: 2})
	po := h.outsOf(p)
	if len(po) == 0 {
		h.sub(p, h.path())
		return
	}
	for _, op := range src {
		h.reserved[op] = true
	}
	h.queue = append(h.queue, p)
	c := h.build(po[:1], bopt{family: "orphan-child", fee: h.randFee(), bad: -1})
	if co := h.outsOf(c); len(co) > 0 && h.r.Intn(3) == 0 {
		gch := h.build(co[:1], bopt{family: "orphan-grandchild", fee: h.randFee(), bad: -1})
		if h.r.Intn(2) == 0 {
			h.sub(gch, "net")
			h.sub(c, "net")
		} else {
			h.sub(c, "net")
			h.sub(gch, "net")
		}
	} else {
		h.sub(c, "net")
	}
	if len(po) > 1 && h.r.Intn(3) == 0 { // a second orphan waiting for the same parent
		h.sub(h.build(po[1:2], bopt{family: "orphan-child", fee: h.randFee(), bad: -1}), "net")
	}
}

func (h *hist) stepFlush() {
	if len(h.queue) == 0 {
		h.stepChild()
		return
	}
	i := h.r.Intn(len(h.queue))
	x := h.queue[i]
	h.queue = append(h.queue[:i], h.queue[i+1:]...)
	for _, in := range x.t.In {
		delete(h.reserved, in.Prev)
	}
	pth := h.path()
	h.sub(x, pth)
}

func vsizeOf(t *refchain.Tx) uint64 {
	return uint64((t.Weight() + 3) / 4)
}

// stepRBF replaces pooled txs. victim nil = choose; mode "" = choose among lower/equal/higher.
func (h *hist) stepRBF(victim *pent, mode string) {
	v := h.v
	if len(v.ents) == 0 {
		h.stepSimple()
		return
	}
	if victim == nil {
		victim = v.ents[h.r.Intn(len(v.ents))]
		if h.r.Intn(2) == 0 { // prefer one with descendants
			for k := 0; k < 8; k++ {
				c := v.ents[h.r.Intn(len(v.ents))]
				if len(v.children(c)) > 0 {
					victim = c
					break
				}
			}
		}
	}
	victims := []*pent{victim}
	if h.r.Intn(5) == 0 && len(v.ents) > 1 {
		if o := v.ents[h.r.Intn(len(v.ents))]; o != victim {
			victims = append(victims, o)
		}
	}
	var ins []OP
	for _, vi := range victims {
		if vi.dupIn || len(vi.ins) == 0 {
			continue
		}
		op := vi.ins[h.r.Intn(len(vi.ins))]
		if _, ok := h.coin(op); !ok {
			continue
		}
		dup := false
		for _, x := range ins {
			dup = dup || x == op
		}
		if !dup {
			ins = append(ins, op)
		}
	}
	// the set that will be replaced; a replacement that spends an output of a tx it replaces is a
	// family of its own (see poison.go), so such inputs are dropped here
	var set map[*pent]bool
	for {
		set = map[*pent]bool{}
		for _, op := range ins {
			for _, s := range v.spent[op] {
				set[s] = true
				for _, d := range v.descendants(s) {
					set[d] = true
				}
			}
		}
		var keep []OP
		for _, op := range ins {
			if p := v.byID[op.Hash]; p == nil || !set[p] {
				keep = append(keep, op)
			}
		}
		if len(keep) == len(ins) {
			break
		}
		ins = keep
	}
	if len(ins) == 0 || len(set) == 0 {
		return
	}
	// a replacement must not spend outputs of what it replaces (that is a family of its own)
	var totfee, totvs uint64
	for e := range set {
		totfee += e.fee
		totvs += uint64(e.rt.VSize())
	}
	if fc := h.freeConfirmed(); len(fc) > 0 && h.r.Intn(2) == 0 {
		ins = append(ins, h.take(&fc, 1)...)
	}
	if mode == "" {
		mode = []string{"lower", "equal", "higher", "higher", "higher"}[h.r.Intn(5)]
	}
	probe := h.build(ins, bopt{family: "rbf-probe", fee: 1000, bad: -1, nout: 1, noReg: true})
	vs := vsizeOf(probe.t)
	feeEq := (totfee*vs + totvs - 1) / totvs
	var fee uint64
	switch mode {
	case "lower":
		fee = feeEq * uint64(30+h.r.Intn(66)) / 100
		if fee == 0 {
			fee = 1
		}
	case "equal":
		fee = totfee * vs / totvs
	default:
		fee = feeEq + 1 + uint64(h.r.Intn(4000))
	}
	var seqs []uint32
	if h.prof.notFullRBF {
		seqs = make([]uint32, len(ins))
		for i := range seqs {
			seqs[i] = 0xffffffff - uint32(h.r.Intn(3))
		}
	}
	x := h.build(ins, bopt{family: "rbf-" + mode, fee: fee, bad: -1, nout: 1, seqs: seqs})
	pth := "net"
	switch h.r.Intn(8) {
	case 0:
		pth = "local"
	case 1:
		pth = "net-trusted"
	}
	h.run.Distinct("rbf_shapes", mode, pth, bucket(len(set)), len(victims))
	before := len(v.ents)
	res := h.sub(x, pth)
	if res == 0 && h.v != nil {
		ev := before + 1 - len(h.v.ents)
		h.run.Inc("rbf_replacements_accepted")
		h.run.Count("rbf_txs_evicted", int64(ev))
		h.run.Distinct("rbf_evicted_counts", ev)
		if pth == "net" && ev > 100 {
			h.run.Inc("aux_rbf_untrusted_replacement_evicted_more_than_100")
		}
		if pth == "net" && ev == 100 {
			h.run.Inc("aux_rbf_untrusted_replacement_evicted_exactly_100")
		}
	}
}

// fan: one root with n descendants (chains and trees), then usually a replacement of the root
func (h *hist) stepFan() {
	fc := h.freeConfirmed()
	var rich []OP
	for _, op := range fc {
		if c, _ := h.coin(op); c.Value > 5000000 {
			rich = append(rich, op)
		}
	}
	if len(rich) == 0 {
		h.stepSimple()
		return
	}
	sizes := []int{1, 2, 3, 5, 10, 20, 40, 60, 98, 99, 100, 101, 105, 120}
	n := sizes[h.r.Intn(len(sizes))]
	pth := "net"
	if h.prof.noMemIn {
		pth = "net-trusted"
	}
	root := h.build(h.take(&rich, 1), bopt{family: "fan-root", fee: h.randFee(), bad: -1, nout: 3 + h.r.Intn(3)})
	if h.sub(root, pth) != 0 {
		return
	}
	frontier := h.outsOf(root)
	cnt := 0
	for cnt < n && len(frontier) > 0 && !h.stopped {
		k := 1
		if h.r.Intn(5) == 0 {
			k = 2
		}
		ins := h.take(&frontier, k)
		x := h.build(ins, bopt{family: "fan-descendant", fee: uint64(200 + h.r.Intn(2500)), bad: -1, nout: 1 + h.r.Intn(2)})
		if h.sub(x, pth) != 0 {
			break
		}
		frontier = append(frontier, h.outsOf(x)...)
		cnt++
	}
	h.run.Distinct("fan_sizes", cnt)
	if h.stopped || h.r.Intn(10) >= 7 {
		return
	}
	if e := h.v.byID[root.id]; e != nil {
		mode := "higher"
		if h.r.Intn(6) == 0 {
			mode = "lower"
		}
		h.stepRBF(e, mode)
	}
}

func (h *hist) stepInvalid() {
	fc := h.freeConfirmed()
	if len(fc) == 0 {
		return
	}
	switch k := h.r.Intn(9); k {
	case 0, 1: // a script that fails
		ins := h.take(&fc, 1+h.r.Intn(2))
		if fp := h.freePooled(); len(fp) > 0 && h.r.Intn(2) == 0 {
			ins = append(ins, h.take(&fp, 1)...)
		}
		x := h.build(ins, bopt{family: "invalid-script", fee: h.randFee(), bad: h.r.Intn(len(ins))})
		h.sub(x, "net")
	case 2: // spends more than it has
		ins := h.take(&fc, 1)
		c, _ := h.coin(ins[0])
		x := h.build(ins, bopt{family: "overspend", bad: -1, outs: []refchain.TxOut{h.g.OutTrue(c.Value + 1 + uint64(h.r.Intn(1000)))}})
		h.sub(x, h.path())
	case 3: // output index that does not exist: of a pooled tx / of a confirmed tx
		if len(h.v.ents) > 0 && h.r.Intn(2) == 0 {
			e := h.v.ents[h.r.Intn(len(h.v.ents))]
			op := OP{Hash: e.id, Idx: uint32(len(e.rt.Out) + h.r.Intn(3))}
			h.known[op] = refchain.Coin{Value: 50000, Script: []byte{0x51}}
			x := h.build([]OP{op}, bopt{family: "bad-vout-of-pooled", fee: 500, bad: -1, nout: 1})
			delete(h.known, op)
			h.sub(x, h.path())
		} else {
			h.stepSimple() // (an orphan of a non-existent output of a confirmed tx: see poison.go)
		}
	case 4: // no fee
		ins := h.take(&fc, 1)
		c, _ := h.coin(ins[0])
		x := h.build(ins, bopt{family: "zero-fee", bad: -1, outs: []refchain.TxOut{h.g.OutTrue(c.Value)}})
		h.sub(x, h.path())
	case 5: // immature coinbase
		var imm []OP
		for op, c := range h.ref.Utxo {
			if c.Coinbase && h.ref.Tip.Height+1-c.Height < refchain.CoinbaseMaturity && h.spendableScript(c.Script) {
				imm = append(imm, op)
			}
		}
		if len(imm) == 0 {
			return
		}
		sort.Slice(imm, func(i, j int) bool { return lessOP(imm[i], imm[j]) })
		x := h.build([]OP{imm[h.r.Intn(len(imm))]}, bopt{family: "immature-coinbase", fee: h.randFee(), bad: -1})
		h.sub(x, h.path())
	case 6: // parent nobody will ever see
		var op OP
		copy(op.Hash[:], h.r.Bytes(32))
		h.known[op] = refchain.Coin{Value: 70000, Script: []byte{0x51}}
		x := h.build([]OP{op}, bopt{family: "unknown-parent", fee: 500, bad: -1, nout: 1})
		delete(h.known, op)
		h.sub(x, "net")
	case 7: // above the weight limit of the pool
		if h.r.Intn(4) != 0 {
			h.stepSimple()
			return
		}
		x := h.build(h.take(&fc, 1), bopt{family: "too-big", fee: 200000, bad: -1, nout: 1, pad: 101000})
		h.sub(x, "net")
	case 8:
		h.stepChild() // (an orphan of an output already spent by the chain: see poison.go)
	}
}

func (h *hist) stepResubmit() {
	if len(h.genList) == 0 {
		return
	}
	x := h.genList[h.r.Intn(len(h.genList))]
	if x.poison != "" && !h.poisonOn {
		return
	}
	for _, q := range h.queue {
		if q == x {
			return
		}
	}
	y := *x
	y.family = "resubmit"
	h.sub(&y, h.path())
}

// listing as pents (under the pool lock)
func (h *hist) listingRBF() []*pent {
	txpool.TxMutex.Lock()
	l := txpool.GetSortedMempoolRBF()
	txpool.TxMutex.Unlock()
	var pl []*pent
	for _, t := range l {
		if t == nil {
			continue
		}
		if e := h.v.byID[Hash(t.Hash.Hash)]; e != nil {
			pl = append(pl, e)
		}
	}
	return pl
}

// stepMinePool mines a block made of a prefix of GetSortedMempoolRBF() (all = whole listing).
func (h *hist) stepMinePool(all bool) bool {
	if !h.check(true) {
		return true
	}
	pl := h.listingRBF()
	if len(pl) == 0 {
		return h.deliver(h.g.RandomBlock(h.ref.Tip, 0), "empty", true)
	}
	k := len(pl)
	if !all && h.r.Intn(2) == 0 {
		k = 1 + h.r.Intn(len(pl))
	}
	b := h.blockFrom(pl[:k], nil)
	h.run.Count("pool_txs_mined", int64(len(b.Txs)-1))
	raw := b.Serialize()
	_ = raw
	ok := h.deliver(b, "from-listing", false)
	th, _ := h.node.Tip()
	if th != b.Hash() {
		// (g): the node did not connect a block assembled from its own listing
		h.pendingFindings = append(h.pendingFindings, finding{head: "mined-block-from-listing-not-connected", detail: normErr(h.lastNode),
			what: "a block assembled from a prefix of GetSortedMempoolRBF() and delivered like a mined block was not connected by the node: " + cut(h.lastNode+" "+h.lastDeliver, 300)})
		h.check(true)
		return true
	}
	return ok
}

// topo returns the pool in a parents-first order computed by the walker's own data
func (v *pview) topo() []*pent {
	done := map[*pent]bool{}
	var res []*pent
	var visit func(e *pent)
	visit = func(e *pent) {
		if done[e] {
			return
		}
		done[e] = true
		for _, p := range e.par {
			visit(p)
		}
		res = append(res, e)
	}
	for _, e := range v.ents {
		visit(e)
	}
	return res
}

// stepMineMixed: a block with some pooled txs, txs conflicting with pooled ones and unknown txs.
func (h *hist) stepMineMixed() bool {
	v := h.v
	excluded := map[*pent]bool{}
	used := map[OP]bool{}
	var extra []*genTx
	// conflicts
	nconf := h.r.Intn(3)
	for i := 0; i < nconf && len(v.ents) > 0; i++ {
		e := v.ents[h.r.Intn(len(v.ents))]
		var cands []OP
		for _, op := range e.ins {
			if _, ok := h.ref.Utxo[op]; ok && !used[op] {
				cands = append(cands, op)
			}
		}
		if len(cands) == 0 {
			continue
		}
		op := cands[h.r.Intn(len(cands))]
		used[op] = true
		x := h.build([]OP{op}, bopt{family: "block-conflict", fee: h.randFee(), bad: -1})
		extra = append(extra, x)
		for _, s := range v.spent[op] {
			excluded[s] = true
			for _, d := range v.descendants(s) {
				excluded[d] = true
			}
		}
	}
	// transactions the pool has rejected or seen replaced earlier (they sit in its rejected list), confirmed by this
	// block after all: whatever pooled transaction conflicts with them (and its descendants) has to go
	if h.r.Intn(2) == 0 {
		var cands []*genTx
		for bidx, tr := range txpool.TransactionsRejected {
			_ = bidx
			x := h.subbed[Hash(tr.Id.Hash)]
			if x == nil || x.badScript || x.poison != "" || len(x.raw) > 50000 {
				continue
			}
			switch tr.Reason { // only what was refused for pool policy (a valid transaction that lost against pooled ones)
			case txpool.TX_REJECTED_RBF_LOWFEE, txpool.TX_REJECTED_RBF_FINAL, txpool.TX_REJECTED_RBF_100, txpool.TX_REJECTED_REPLACED, txpool.TX_REJECTED_LOW_FEE:
			default:
				continue
			}
			ok := len(x.t.In) > 0 && len(x.t.Out) > 0
			for _, in := range x.t.In {
				if _, conf := h.ref.Utxo[in.Prev]; !conf || used[in.Prev] {
					ok = false
				}
			}
			if ok && refchain.IsFinal(x.t, h.ref.Tip.Height+1, h.ref.Tip.MTP()) {
				cands = append(cands, x)
			}
		}
		sort.Slice(cands, func(i, j int) bool { return bytes.Compare(cands[i].id[:], cands[j].id[:]) < 0 })
		for i, n := 0, 1+h.r.Intn(2); i < n && len(cands) > 0; i++ {
			k := h.r.Intn(len(cands))
			x := cands[k]
			cands = append(cands[:k], cands[k+1:]...)
			free := true
			for _, in := range x.t.In {
				free = free && !used[in.Prev]
			}
			if !free {
				continue
			}
			y := *x
			y.family = "block-rejected-earlier"
			extra = append(extra, &y)
			h.run.Inc("blocks_confirming_an_earlier_rejected_tx")
			for _, in := range x.t.In {
				used[in.Prev] = true
				for _, s := range v.spent[in.Prev] {
					excluded[s] = true
					for _, d := range v.descendants(s) {
						excluded[d] = true
					}
				}
			}
		}
	}
	// pooled subset closed under parents
	chosen := map[*pent]bool{}
	var list []*pent
	p := 20 + h.r.Intn(75)
	wsum := 0
	for _, e := range v.topo() {
		if excluded[e] || !e.inOK || h.r.Intn(100) >= p {
			continue
		}
		// what blockFrom would leave out must not be chosen (something else may build on it)
		if wsum+e.weight > 3500000 || !refchain.IsFinal(toRef(e.rt), h.ref.Tip.Height+1, h.ref.Tip.MTP()) {
			continue
		}
		ok := true
		for _, pa := range e.par {
			ok = ok && chosen[pa]
		}
		if ok {
			chosen[e] = true
			list = append(list, e)
			wsum += e.weight
		}
	}
	// unknown txs, sometimes with an in-block child; sometimes a withheld parent of an orphan
	fc := h.freeConfirmed()
	for i, n := 0, h.r.Intn(3); i < n && len(fc) > 0; i++ {
		ins := h.take(&fc, 1)
		if used[ins[0]] {
			continue
		}
		used[ins[0]] = true
		x := h.build(ins, bopt{family: "block-unknown", fee: h.randFee(), bad: -1})
		extra = append(extra, x)
		if o := h.outsOf(x); len(o) > 0 && h.r.Intn(3) == 0 {
			extra = append(extra, h.build(o[:1], bopt{family: "block-unknown-child", fee: h.randFee(), bad: -1}))
		}
	}
	if len(h.queue) > 0 && h.r.Intn(2) == 0 {
		i := h.r.Intn(len(h.queue))
		q := h.queue[i]
		ok := true
		for _, in := range q.t.In {
			_, conf := h.ref.Utxo[in.Prev]
			inBlock := false
			if e := v.byID[in.Prev.Hash]; e != nil && chosen[e] {
				inBlock = true
			}
			ok = ok && (conf || inBlock) && !used[in.Prev] && len(v.spent[in.Prev]) == 0
		}
		if ok {
			h.queue = append(h.queue[:i], h.queue[i+1:]...)
			for _, in := range q.t.In {
				delete(h.reserved, in.Prev)
				used[in.Prev] = true
			}
			y := *q
			y.family = "block-withheld-parent"
			extra = append(extra, &y)
			h.run.Inc("blocks_with_withheld_orphan_parent")
		}
	}
	b := h.blockFrom(list, extra)
	h.run.Count("pool_txs_mined", int64(len(list)))
	h.run.Count("conflicting_or_unknown_txs_mined", int64(len(extra)))
	h.run.Distinct("mixed_block_shapes", bucket(len(list)), nconf, len(extra))
	return h.deliver(b, "mixed", true)
}

// stepReorg: a competing branch from 1..3 blocks below the tip, one block longer.
func (h *hist) stepReorg() bool {
	d := 1 + h.r.Intn(3)
	tip := h.ref.Tip
	if tip.Height-uint32(d) < 110 {
		d = 1
	}
	fork := tip.Ancestor(tip.Height - uint32(d))
	var undone []*refchain.Tx
	for n := tip; n != fork; n = n.Parent {
		undone = append(append([]*refchain.Tx{}, n.Block.Txs[1:]...), undone...)
	}
	parent := fork
	for i := 0; i <= d; i++ {
		var b *refchain.Block
		if i == 0 && len(undone) > 0 && h.r.Intn(3) != 0 {
			b = h.reorgBlockWithUndone(parent, undone)
		} else {
			b = h.g.RandomBlock(parent, 4)
		}
		if !h.deliver(b, "reorg-branch", false) {
			return false
		}
		n := h.ref.Nodes[b.Hash()]
		if n == nil || n.Invalid {
			h.lastDeliver = "generator: branch block not stored/valid in the reference: " + fmt.Sprint(n != nil)
			return false
		}
		parent = n
	}
	if h.ref.Tip != parent {
		h.lastDeliver = "generator: reorganisation did not happen in the reference"
		return false
	}
	h.run.Distinct("reorg_shapes", d, len(undone) > 0)
	return true
}

// first block of a competing branch: some of the undone txs again, a tx conflicting with one of
// the others, fresh txs.
func (h *hist) reorgBlockWithUndone(parent *refchain.Node, undone []*refchain.Tx) *refchain.Block {
	view := h.g.View(parent)
	if view == nil {
		return h.g.RandomBlock(parent, 3)
	}
	created := map[OP]refchain.Coin{}
	spent := map[OP]bool{}
	lookup := func(op OP) (refchain.Coin, bool) {
		if spent[op] {
			return refchain.Coin{}, false
		}
		if c, ok := created[op]; ok {
			return c, true
		}
		c, ok := view[op]
		if ok && c.Coinbase && parent.Height+1-c.Height < refchain.CoinbaseMaturity {
			return c, false
		}
		return c, ok
	}
	var txs []*refchain.Tx
	var fees uint64
	wsum := 4000
	include := func(t *refchain.Tx) bool {
		if !refchain.IsFinal(t, parent.Height+1, parent.MTP()) || wsum+t.Weight() > 3800000 {
			return false
		}
		wsum += t.Weight()
		var in, out uint64
		seen := map[OP]bool{}
		for _, i := range t.In {
			c, ok := lookup(i.Prev)
			if !ok || seen[i.Prev] {
				return false
			}
			seen[i.Prev] = true
			in += c.Value
		}
		for _, o := range t.Out {
			out += o.Value
		}
		if out > in {
			return false
		}
		for _, i := range t.In {
			spent[i.Prev] = true
		}
		id := t.TxID()
		for oi, o := range t.Out {
			created[OP{Hash: id, Idx: uint32(oi)}] = refchain.Coin{Value: o.Value, Script: o.Script, Height: parent.Height + 1}
		}
		fees += in - out
		txs = append(txs, t)
		return true
	}
	var left []*refchain.Tx
	for _, t := range undone {
		if h.r.Intn(2) == 0 && include(t) {
			h.run.Inc("undone_txs_mined_again_on_new_branch")
			continue
		}
		left = append(left, t)
	}
	// a conflict with an undone tx that was not included again
	if len(left) > 0 {
		t := left[h.r.Intn(len(left))]
		for _, i := range t.In {
			if c, ok := lookup(i.Prev); ok && h.spendableScript(c.Script) {
				sv := h.known[i.Prev]
				h.known[i.Prev] = c
				x := h.build([]OP{i.Prev}, bopt{family: "reorg-conflict", fee: 777, bad: -1, nout: 1, noReg: true})
				h.known[i.Prev] = sv
				if sv.Script == nil {
					delete(h.known, i.Prev)
				}
				// the coin must come from this branch's view, not from the active chain
				if include(x.t) {
					h.run.Inc("txs_conflicting_with_undone_tx_mined")
				}
				break
			}
		}
	}
	return h.g.Build(chainsim.BlockSpec{Parent: parent, Txs: txs, Fees: fees, CoinbaseKind: chainsim.KTrue})
}

func (h *hist) stepTick() {
	n := 0
	if len(h.v.ents) > 0 && h.r.Intn(4) != 0 {
		exp := common.Get(&common.TxExpireAfter)
		txpool.TxMutex.Lock()
		for _, e := range h.v.ents {
			if h.r.Intn(4) == 0 {
				e.t2s.Lastseen = time.Now().Add(-exp - time.Hour)
				n++
			}
		}
		txpool.TxMutex.Unlock()
		nextTxsPoolExpire = time.Now().Add(-time.Second)
	}
	before := len(h.v.ents)
	h.note("tick backdated=%d pool=%d", n, before)
	h.enter("Tick")
	txpool.Tick()
	h.leave()
	h.run.Inc("ticks")
	if h.r.Intn(2) == 0 {
		// client/network/trxs.go SendGetMP: the dynamic fee floor is reset when a getmp is sent
		txpool.TxMutex.Lock()
		txpool.CurrentFeeAdjustedSPKB = 0
		common.SetMinFeePerKB(0)
		txpool.TxMutex.Unlock()
	}
	h.check(false)
	if h.v != nil {
		h.run.Count("txs_gone_after_tick", int64(before-len(h.v.ents)))
		h.run.Count("txs_backdated", int64(n))
		h.run.Distinct("step_outcomes", "tick", bucket(n), bucket(before-len(h.v.ents)))
	}
}

func (h *hist) stepSaveLoad() {
	before := map[Hash]bool{}
	for _, e := range h.v.ents {
		before[e.id] = true
	}
	h.note("save/load pool=%d", len(before))
	h.enter("MempoolSave/InitMempool")
	txpool.MempoolSave(true)
	txpool.InitMempool()
	h.leave()
	if !h.check(false) {
		return
	}
	if len(h.v.ents) != 0 {
		h.run.Inc("aux_pool_not_empty_after_init")
	}
	cut := false
	if h.r.Intn(3) == 0 {
		// the pool file is not written atomically: a process killed (or a disk filling up) while MempoolSave runs leaves
		// a prefix of it. Whatever the load makes of that, the pool it leaves behind has to be consistent.
		fn := common.GocoinHomeDir + txpool.MEMPOOL_FILE_NAME
		if st, er := os.Stat(fn); er == nil && st.Size() > 1 {
			os.Truncate(fn, int64(h.r.Intn(int(st.Size()))))
			cut = true
			h.note("pool file cut")
			h.run.Inc("reloads_of_a_cut_pool_file")
		}
	}
	h.enter("MempoolLoad")
	ok := txpool.MempoolLoad()
	h.leave()
	if cut && !ok {
		h.run.Inc("cut_pool_files_refused")
	}
	h.run.Inc("reloads")
	if !h.check(true) {
		return
	}
	same := ok && len(h.v.ents) == len(before)
	for _, e := range h.v.ents {
		same = same && before[e.id]
	}
	if !same {
		h.run.Inc("aux_reload_changed_the_set_of_pooled_txs")
	}
	h.run.Distinct("step_outcomes", "save-load", bucket(len(before)), same)
}

func (h *hist) stepBig() {
	for k, n := 0, 2+h.r.Intn(3); k < n && !h.stopped; k++ {
		var ins []OP
		if h.r.Intn(4) == 0 {
			// like SendGetMP: the dynamic fee floor is dropped, so the pool can fill up again
			txpool.TxMutex.Lock()
			txpool.CurrentFeeAdjustedSPKB = 0
			common.SetMinFeePerKB(0)
			txpool.TxMutex.Unlock()
		}
		if fp := h.freePooled(); len(fp) > 0 && h.r.Intn(4) != 0 {
			ins = h.take(&fp, 1)
		} else {
			fc := h.freeConfirmed()
			if len(fc) == 0 {
				return
			}
			ins = h.take(&fc, 1)
		}
		c, _ := h.coin(ins[0])
		pad := 50000 + h.r.Intn(45000)
		fee := uint64(pad) * uint64(1+h.r.Intn(40)) / uint64(1+h.r.Intn(4))
		if fee+1000 > c.Value {
			continue
		}
		x := h.build(ins, bopt{family: "big", fee: fee, bad: -1, nout: 1 + h.r.Intn(2), pad: pad})
		pth := "net"
		if h.prof.noMemIn {
			pth = "net-trusted"
		}
		before := h.v
		if h.sub(x, pth) == 0 && h.v != nil {
			gone := 0
			for _, e := range before.ents {
				if h.v.byID[e.id] == nil {
					gone++
				}
			}
			if gone > 0 {
				h.run.Inc("evictions_at_size_limit_observed")
				h.run.Count("txs_evicted_at_size_limit", int64(gone))
				h.run.Distinct("step_outcomes", "evicted", bucket(gone), bucket(len(before.ents)))
			}
		}
	}
}
