// Package crashmon implements the C07 monitor: crash-point (fault) enumeration over the hook points
// between the file-system effects of block storage, undo files, UTXO snapshots and reorganisations.
//
//	planner (parent): generates a workload (blocks + idle/save operations) and runs it on the
//	                  reference model only, recording the tip after every operation
//	worker  (child) : executes the workload on the real chain code in a fresh directory; killed by
//	                  SIGKILL at the n-th hit of a hook point (VERIF_CRASH_AT), journals the op index
//	reopen  (child) : fresh process opens the directory (library mode and client-style mode), dumps
//	                  tip + UTXO, then is fed all blocks again, dumps the final state
//	oracle  (parent): reopened tip is one the node had validated before the crash, its UTXO equals the
//	                  reference replay of that tip, final state equals the uninterrupted reference run
package crashmon

import (
	"encoding/json"
	"fmt"
	"os"
	"os/exec"
	"runtime/debug"
	"sort"
	"strings"
	"sync"
	"time"

	"github.com/piotrnar/gocoin/lib/btc"
	"github.com/piotrnar/gocoin/lib/chain"
	"github.com/piotrnar/gocoin/lib/utxo"
	"verif/lib/vlib"
	"verif/mon/chainsim"
	"verif/ref/refchain"
)

type Op struct {
	Kind string `json:"k"` // block | idle | waitsave | hurry
	Raw  string `json:"raw,omitempty"`
	Hash string `json:"h,omitempty"`
	Note string `json:"n,omitempty"`
}

type Workload struct {
	Seed         int64           `json:"seed"`
	Params       refchain.Params `json:"params"`
	Ops          []Op            `json:"ops"`
	SaveTargetMs int             `json:"save_target_ms"`
	MaxDataFile  uint64          `json:"max_data_file"`
	Compress     bool            `json:"compress"`
	Purge        bool            `json:"purge"` // utxo.UTXO_PURGE_UNSPENDABLE, as a freshly configured client runs
	SkipSave     uint32          `json:"skip_save_blocks"` // utxo.UTXO_SKIP_SAVE_BLOCKS (the client's UTXOSave.BlocksToHold, default 6)
	UnwindBuf    uint32          `json:"unwind_buf"`       // UnspentDB.UnwindBufLen (0 = library default 2560): undo-file clean-up inside the plan's heights
}

type State struct {
	Tip    string   `json:"tip"`
	Height uint32   `json:"height"`
	Utxo   []string `json:"utxo"`
}

type ReopenResult struct {
	Opened *State `json:"opened"`
	Final  *State `json:"final"`
	Err    string `json:"err,omitempty"`
	Stack  string `json:"stack,omitempty"`
}

func dumpState(n *chainsim.Node) *State {
	h, ht := n.Tip()
	return &State{Tip: h.String(), Height: ht, Utxo: utxoList(n.DumpUTXO())}
}

// refList lists a reference set the way the node is expected to hold it (without unspendable outputs when the
// purge option is on).
func refList(u refchain.UTXO) []string {
	if !chainsim.PurgeUnspendable {
		return utxoList(u)
	}
	f := refchain.UTXO{}
	for k, c := range u {
		if !chainsim.RefUnspendable(c.Script) {
			f[k] = c
		}
	}
	return utxoList(f)
}

func utxoList(u refchain.UTXO) []string {
	l := make([]string, 0, len(u))
	for k, c := range u {
		l = append(l, fmt.Sprintf("%s:%d v=%d h=%d cb=%v s=%x", k.Hash, k.Idx, c.Value, c.Height, c.Coinbase, c.Script))
	}
	sort.Strings(l)
	return l
}

func diffLists(got, want []string) string {
	gm := map[string]bool{}
	for _, g := range got {
		gm[g] = true
	}
	wm := map[string]bool{}
	for _, w := range want {
		wm[w] = true
	}
	var d []string
	for _, w := range want {
		if !gm[w] {
			d = append(d, "missing "+short(w))
		}
	}
	for _, g := range got {
		if !wm[g] {
			d = append(d, "extra "+short(g))
		}
	}
	if len(d) == 0 {
		return ""
	}
	n := len(d)
	if n > 5 {
		d = d[:5]
	}
	return fmt.Sprintf("%d differences: %v", n, d)
}
func short(s string) string {
	if len(s) > 110 {
		return s[:110] + "…"
	}
	return s
}

func bdbOpts(w *Workload) *chain.BlockDBOpts {
	return &chain.BlockDBOpts{MaxCachedBlocks: 8, MaxDataFileSize: w.MaxDataFile, DataFilesKeep: 0, CompressOnDisk: w.Compress}
}

// ---- worker: executes the ops; may be killed at a hook point
func worker(wlFile, dir, journal string) {
	var w Workload
	b, _ := os.ReadFile(wlFile)
	if json.Unmarshal(b, &w) != nil {
		os.Exit(9)
	}
	chainsim.SetPurge(w.Purge)
	utxo.UTXO_SKIP_SAVE_BLOCKS = w.SkipSave
	chainsim.UnwindBufLen = w.UnwindBuf
	utxo.UTXO_WRITING_TIME_TARGET = time.Duration(w.SaveTargetMs) * time.Millisecond
	n := chainsim.OpenNode(dir, w.Params, chainsim.NodeOpts{BDB: bdbOpts(&w)})
	jf, _ := os.OpenFile(journal, os.O_CREATE|os.O_WRONLY|os.O_APPEND, 0o644)
	for i, op := range w.Ops {
		fmt.Fprintf(jf, "%d\n", i)
		switch op.Kind {
		case "block":
			n.Deliver(vlib.UnHex(op.Raw))
		case "idle":
			n.Ch.Idle()
		case "waitsave":
			for k := 0; k < 3000 && n.Ch.Unspent.WritingInProgress.Get(); k++ {
				time.Sleep(time.Millisecond)
			}
		case "hurry":
			n.Ch.Unspent.HurryUp()
		case "nosave":
			utxo.UTXO_SKIP_SAVE_BLOCKS = 1 << 30 // Idle() still flushes the block store but takes no snapshot
		case "exit":
			os.Exit(0) // process ends without Close(): no final snapshot
		}
	}
	fmt.Fprintf(jf, "close\n")
	n.Close()
	fmt.Fprintf(jf, "done\n")
}

// ---- reopen: opens the directory in the given mode, dumps, feeds all blocks, dumps again
func reopen(wlFile, dir, mode, out string) {
	var w Workload
	b, _ := os.ReadFile(wlFile)
	json.Unmarshal(b, &w)
	chainsim.SetPurge(w.Purge)
	utxo.UTXO_SKIP_SAVE_BLOCKS = w.SkipSave
	chainsim.UnwindBufLen = w.UnwindBuf
	res := &ReopenResult{}
	write := func() {
		jb, _ := json.Marshal(res)
		os.WriteFile(out, jb, 0o644)
	}
	defer func() {
		if r := recover(); r != nil {
			res.Err = fmt.Sprint("panic: ", r)
			res.Stack = string(debug.Stack())
			write()
			os.Exit(3)
		}
	}()
	var n *chainsim.Node
	if mode == "lib" {
		n = chainsim.OpenNode(dir, w.Params, chainsim.NodeOpts{BDB: bdbOpts(&w)})
	} else {
		n = chainsim.OpenNode(dir, w.Params, chainsim.NodeOpts{BDB: bdbOpts(&w), DoNotRescan: true})
		clientStyleCatchUp(n.Ch)
	}
	res.Opened = dumpState(n)
	write()
	for _, op := range w.Ops {
		if op.Kind == "block" {
			n.Deliver(vlib.UnHex(op.Raw))
		}
	}
	res.Final = dumpState(n)
	write()
	n.Close()
}

func reopenDump(wlFile, dir, mode, out string) {
	var w Workload
	b, _ := os.ReadFile(wlFile)
	json.Unmarshal(b, &w)
	chainsim.SetPurge(w.Purge)
	utxo.UTXO_SKIP_SAVE_BLOCKS = w.SkipSave
	chainsim.UnwindBufLen = w.UnwindBuf
	res := &ReopenResult{}
	defer func() {
		if r := recover(); r != nil {
			res.Err = fmt.Sprint("panic: ", r)
			jb, _ := json.Marshal(res)
			os.WriteFile(out, jb, 0o644)
			os.Exit(3)
		}
	}()
	var n *chainsim.Node
	if mode == "lib" {
		n = chainsim.OpenNode(dir, w.Params, chainsim.NodeOpts{BDB: bdbOpts(&w)})
	} else {
		n = chainsim.OpenNode(dir, w.Params, chainsim.NodeOpts{BDB: bdbOpts(&w), DoNotRescan: true})
		clientStyleCatchUp(n.Ch)
	}
	res.Opened = dumpState(n)
	jb, _ := json.Marshal(res)
	os.WriteFile(out, jb, 0o644)
	n.Close()
}

// clientStyleCatchUp re-implements what client/main.go does at start-up with blocks found on disk
// beyond the snapshot (do_the_blocks -> LocalAcceptBlock -> CommitBlock); package main cannot be
// imported, this is the only place where harness code stands in for client code.
func clientStyleCatchUp(ch *chain.Chain) {
	end, _ := ch.BlockTreeRoot.FindFarthestNode()
	if end.Height <= ch.LastBlock().Height {
		return
	}
	last := ch.LastBlock()
	if last != end {
		last = last.FindFirstFather(end)
	}
	for last != end {
		nxt := last.FindPathTo(end)
		if nxt == nil || nxt.BlockSize == 0 {
			break
		}
		crec, trusted, _ := ch.Blocks.BlockGetInternal(nxt.BlockHash, true)
		if crec == nil || crec.Data == nil {
			panic(fmt.Sprint("No data for block #", nxt.Height, " ", nxt.BlockHash.String()))
		}
		bl, er := btc.NewBlock(crec.Data)
		if er != nil {
			break
		}
		bl.Height = nxt.Height
		ch.ApplyBlockFlags(bl)
		if er = bl.BuildTxList(); er != nil {
			break
		}
		bl.Trusted.Store(trusted)
		ch.Unspent.AbortWriting()
		ch.Blocks.BlockAdd(nxt.Height, bl)
		bl.LastKnownHeight = end.Height
		ch.CommitBlock(bl, nxt)
		last = nxt
	}
}

// ---- planner
type plan struct {
	w        Workload
	ref      *refchain.Chain
	tipAfter []refchain.Hash // reference tip after op i
	finalTip refchain.Hash
}

func makePlan(seed int64, variant int) *plan {
	r := vlib.NewRand(uint64(seed)).Fork(fmt.Sprint("C07/plan/", variant))
	p := chainsim.DefaultParams(uint64(seed), variant%3 == 2)
	p.BIP34, p.BIP66, p.BIP65, p.CSV, p.Segwit, p.Taproot = 104, 106, 108, 110, 112, 114
	ref := refchain.NewChain(p, func() int64 { return time.Now().Unix() })
	g := chainsim.NewGen(r, p, ref)
	pl := &plan{ref: ref}
	pl.w = Workload{Seed: seed, Params: p, SaveTargetMs: []int{0, 300, 0, 150}[variant%4], Compress: variant%2 == 1, Purge: variant%3 == 1, SkipSave: []uint32{0, 0, 6, 0, 2}[variant%5], UnwindBuf: []uint32{0, 101, 0, 104}[variant%4]}
	if variant%4 == 3 || variant%5 == 1 {
		// data-file roll-over every few blocks, every other block, (nearly) every block: a restart then finds the newest
		// data file holding many, two or exactly one block
		pl.w.MaxDataFile = []uint64{40000, 5000, 1500}[(variant/4)%3]
	}
	add := func(b *refchain.Block, note string) refchain.Result {
		rr := ref.Deliver(b)
		pl.w.Ops = append(pl.w.Ops, Op{Kind: "block", Raw: vlib.Hex(b.Serialize()), Hash: b.Hash().String(), Note: note + " -> " + rr.Stage + " " + rr.Reason})
		pl.tipAfter = append(pl.tipAfter, ref.Tip.Hash)
		return rr
	}
	ctl := func(k string) {
		pl.w.Ops = append(pl.w.Ops, Op{Kind: k})
		pl.tipAfter = append(pl.tipAfter, ref.Tip.Hash)
	}
	// base
	for ref.Tip.Height < 103 {
		add(g.RandomBlock(ref.Tip, 0), "base")
	}
	// a fat transaction: thousands of small outputs make the snapshot several chunks long
	{
		view := g.View(ref.Tip)
		av := g.Spendable(view, ref.Tip.Height+1, false)
		if len(av) > 0 {
			c := view[av[0]]
			nout := 2500 + r.Intn(2000)
			outs := make([]refchain.TxOut, nout)
			per := c.Value / uint64(nout+1)
			for i := range outs {
				outs[i] = refchain.TxOut{Value: per, Script: g.ScriptOf(chainsim.KP2PKH, r)}
			}
			t := g.Spend([]refchain.OutPoint{av[0]}, []refchain.Coin{c}, outs, 1, 0, nil, -1)
			add(g.Build(chainsim.BlockSpec{Parent: ref.Tip, Txs: []*refchain.Tx{t}, Fees: c.Value - per*uint64(nout)}), "fat")
		}
	}
	for ref.Tip.Height < 110 {
		add(g.RandomBlock(ref.Tip, 5), "base+tx")
	}
	ctl("idle")
	ctl("waitsave")
	phases := r.Perm(4)
	for _, ph := range phases {
		switch ph {
		case 0: // extend with saves in flight (aborted by the next block when the save is slow)
			for i, n := 0, 3+r.Intn(4); i < n; i++ {
				add(g.RandomBlock(ref.Tip, 4), "extend")
				if r.Intn(2) == 0 {
					ctl("idle")
					if r.Intn(3) == 0 {
						ctl("waitsave")
					} else if r.Intn(3) == 0 {
						ctl("hurry")
					}
				}
			}
		case 1: // snapshot, then a reorganisation, no new snapshot afterwards
			ctl("idle")
			ctl("waitsave")
			fork := ref.Tip
			for k := 1 + r.Intn(2); k > 0 && fork.Height > 105; k-- {
				fork = fork.Parent
			}
			par := fork
			need := int(ref.Tip.Height-fork.Height) + 1 + r.Intn(2)
			for i := 0; i < need; i++ {
				b := g.RandomBlock(par, 3)
				add(b, "reorg-branch")
				par = ref.Nodes[b.Hash()]
				if par == nil {
					break
				}
			}
			if r.Intn(2) == 0 {
				ctl("idle")
			}
		case 2: // a heavier branch that turns out invalid when connected
			fork := ref.Tip.Parent
			par := fork
			// bad = 0: the invalid block itself merely ties with the tip when it arrives, is stored unvalidated and (after an
			// idle) flushed to disk; the next block makes the branch heavier, the reorganisation fails on the stored block
			// and its record on disk gets the invalid flag - which every later start has to step over
			bad := r.Intn(3)
			for i := 0; i < 4; i++ {
				var b *refchain.Block
				if i == bad {
					b = g.Build(chainsim.BlockSpec{Parent: par, CoinbaseDelta: 1})
				} else {
					b = g.RandomBlock(par, 2)
				}
				add(b, "invalid-branch")
				par = g.PlanNode(b, par)
				if r.Intn(2) == 0 {
					ctl("idle")
				}
			}
		case 3:
			ctl("idle")
			add(g.RandomBlock(ref.Tip, 4), "after-idle")
			ctl("hurry")
			add(g.RandomBlock(ref.Tip, 4), "after-hurry")
		}
	}
	// unique best tip at the end
	add(g.RandomBlock(ref.Tip, 3), "final")
	add(g.RandomBlock(ref.Tip, 3), "final")
	pl.finalTip = ref.Tip.Hash
	return pl
}

// makeTruncPlan: snapshot early, then more blocks (with a small fork) flushed to the block store
// without a newer snapshot, then the process ends. The tail of the block files is then cut off.
func makeTruncPlan(seed int64) *plan {
	r := vlib.NewRand(uint64(seed)).Fork("C07/truncplan")
	p := chainsim.DefaultParams(uint64(seed), false)
	p.BIP34, p.BIP66, p.BIP65, p.CSV, p.Segwit, p.Taproot = 104, 106, 108, 110, 112, 114
	ref := refchain.NewChain(p, func() int64 { return time.Now().Unix() })
	g := chainsim.NewGen(r, p, ref)
	pl := &plan{ref: ref}
	pl.w = Workload{Seed: seed, Params: p, Compress: r.Bool()}
	add := func(b *refchain.Block, note string) {
		rr := ref.Deliver(b)
		pl.w.Ops = append(pl.w.Ops, Op{Kind: "block", Raw: vlib.Hex(b.Serialize()), Hash: b.Hash().String(), Note: note + " -> " + rr.Stage})
		pl.tipAfter = append(pl.tipAfter, ref.Tip.Hash)
	}
	ctl := func(k string) {
		pl.w.Ops = append(pl.w.Ops, Op{Kind: k})
		pl.tipAfter = append(pl.tipAfter, ref.Tip.Hash)
	}
	for ref.Tip.Height < 102 {
		add(g.RandomBlock(ref.Tip, 0), "base")
	}
	ctl("idle") // a first snapshot, so that the one taken below leaves an UTXO.old behind
	ctl("waitsave")
	for ref.Tip.Height < 106 {
		add(g.RandomBlock(ref.Tip, 5), "base+tx")
	}
	ctl("idle")
	ctl("waitsave")
	ctl("nosave")
	for i := 0; i < 5; i++ {
		add(g.RandomBlock(ref.Tip, 5), "tail")
	}
	fork := ref.Tip.Parent
	b1 := g.RandomBlock(fork, 3)
	add(b1, "tail-fork")
	add(g.RandomBlock(ref.Nodes[b1.Hash()], 3), "tail-fork")
	add(g.RandomBlock(ref.Tip, 3), "tail")
	ctl("idle")
	ctl("exit")
	pl.finalTip = ref.Tip.Hash
	return pl
}

func fileSize(p string) int64 {
	if fi, err := os.Stat(p); err == nil {
		return fi.Size()
	}
	return -1
}

// truncationTests cuts the tail of blockchain.new / blockchain.dat (above the snapshot's block) at
// record boundaries and inside records, and applies the recovery oracle to each result.
func truncationTests(run *vlib.Run, tmp string, seed int64) {
	pl := makeTruncPlan(seed)
	chainsim.PurgeUnspendable = pl.w.Purge
	wlFile := tmp + "/trunc-wl.json"
	jb, _ := json.Marshal(&pl.w)
	os.WriteFile(wlFile, jb, 0o644)
	finalWant := refList(pl.ref.Utxo)
	dir := tmp + "/trunc-base"
	res := runBin([]string{"worker", wlFile, dir, dir + ".journal"}, nil, 10*time.Minute)
	if os.Getenv("VERIF_DEBUG") != "" {
		fmt.Println(vlib.Tail(res.Out, 3000))
		n := chainsim.OpenNode(tmp+"/dbg", pl.w.Params, chainsim.NodeOpts{})
		for i, op := range pl.w.Ops {
			if op.Kind == "block" {
				gr := n.Deliver(vlib.UnHex(op.Raw))
				if gr.Stage != "ok" {
					fmt.Println("DEBUG first failing op", i, op.Note, gr.Stage, gr.Err, op.Raw)
					break
				}
			}
		}
	}
	if res.TimedOut || res.ExitCode != 0 {
		run.Inconclusive("truncation base run failed (exit %d)", res.ExitCode)
		return
	}
	idx := dir + "/blockchain.new"
	datName := "blockchain.dat"
	if fileSize(dir+"/"+datName) < 0 {
		datName = "bl00000000.dat"
	}
	dat := dir + "/" + datName
	isz, dsz := fileSize(idx), fileSize(dat)
	if isz <= 0 || dsz <= 0 || isz%136 != 0 {
		run.Inconclusive("truncation base: unexpected block files (index %d bytes, data %d bytes)", isz, dsz)
		return
	}
	nrec := int(isz / 136)
	run.Extra("truncation_base_records", nrec)
	snapRec := 106 // records 0..105 = blocks up to the snapshot
	r := run.Rand("trunc")
	type cut struct {
		file string
		off  int64
		desc string
	}
	var cuts []cut
	for k := snapRec; k <= nrec; k++ {
		if k < nrec {
			cuts = append(cuts, cut{"blockchain.new", int64(k) * 136, fmt.Sprintf("index@record%d", k)})
			cuts = append(cuts, cut{"blockchain.new", int64(k)*136 + int64(1+r.Intn(135)), fmt.Sprintf("index@record%d+partial", k)})
		}
	}
	// data file: read fpos/blen of the tail records from the index
	if ib, err := os.ReadFile(idx); err == nil {
		for k := snapRec; k < nrec; k++ {
			rec := ib[k*136 : (k+1)*136]
			fpos := int64(uint64(rec[40]) | uint64(rec[41])<<8 | uint64(rec[42])<<16 | uint64(rec[43])<<24)
			blen := int64(uint32(rec[48]) | uint32(rec[49])<<8 | uint32(rec[50])<<16 | uint32(rec[51])<<24)
			cuts = append(cuts, cut{datName, fpos, fmt.Sprintf("data@block%d-start", k)})
			if blen > 2 {
				cuts = append(cuts, cut{datName, fpos + 1 + int64(r.Intn(int(blen-1))), fmt.Sprintf("data@block%d-inside", k)})
			}
		}
	}
	// the snapshot itself: a file that breaks off in its header or among its records has to be passed over in favour of
	// UTXO.old (that is what the older file is kept for) or of a rebuild from the block store
	if usz := fileSize(dir + "/UTXO.db"); usz > 100 {
		for _, off := range []int64{20, 47, 48 + int64(r.Intn(int(usz-60))), usz / 2, usz - 3} {
			cuts = append(cuts, cut{"UTXO.db", off, fmt.Sprintf("snapshot@%s", map[bool]string{true: "header", false: "records"}[off < 48])})
		}
	}
	vlib.Parallel(len(cuts), 12, func(i int) {
		c := cuts[i]
		for _, mode := range []string{"lib", "client"} {
			d2 := fmt.Sprintf("%s/trunc-%d-%s", tmp, i, mode)
			exec.Command("cp", "-r", dir, d2).Run()
			os.Truncate(d2+"/"+c.file, c.off)
			judge(run, pl, wlFile, d2, mode, "truncate/"+trimNum(c.desc)+"#"+fmt.Sprint(i), len(pl.w.Ops)-1, finalWant, false)
			os.RemoveAll(d2)
		}
		run.Inc("truncations")
		run.Distinct("crash_points", "trunc", c.desc)
	})
	os.RemoveAll(dir)
}

// trimNum removes digits so that the class of a truncation witness does not depend on the offset
func trimNum(s string) string {
	var b strings.Builder
	for _, c := range s {
		if c < '0' || c > '9' {
			b.WriteRune(c)
		}
	}
	return b.String()
}

func runBin(args []string, env []string, watchdog time.Duration) vlib.ChildResult {
	return vlib.RunChild("", args, env, nil, watchdog)
}

func Main() {
	if len(os.Args) > 1 {
		switch os.Args[1] {
		case "worker":
			worker(os.Args[2], os.Args[3], os.Args[4])
			return
		case "reopen":
			reopen(os.Args[2], os.Args[3], os.Args[4], os.Args[5])
			return
		case "dump":
			// fresh process: open (after a clean shutdown of the recovery process) and dump the state
			reopenDump(os.Args[2], os.Args[3], os.Args[4], os.Args[5])
			return
		case "debugtrunc":
			var seed int64
			fmt.Sscan(os.Args[2], &seed)
			pl := makeTruncPlan(seed)
			d, _ := os.MkdirTemp("", "dbg")
			defer os.RemoveAll(d)
			n := chainsim.OpenNode(d, pl.w.Params, chainsim.NodeOpts{})
			for i, op := range pl.w.Ops {
				if op.Kind == "block" {
					if gr := n.Deliver(vlib.UnHex(op.Raw)); gr.Stage != "ok" {
						fmt.Println("DEBUG first failing op", i, op.Note, gr.Stage, gr.Err)
						return
					}
				}
			}
			fmt.Println("DEBUG all ok")
			return
		}
	}
	run := vlib.Start("C07", "fault_enumeration")
	tmp, _ := os.MkdirTemp("", "crashmon")
	defer os.RemoveAll(tmp)
	nplans := run.N(4, 16)
	perPlan := run.N(40, 100000) // crash points per plan (thorough: all)
	var mu sync.Mutex
	for pi := 0; pi < nplans; pi++ {
		pl := makePlan(run.Seed*100+int64(pi), pi)
		chainsim.PurgeUnspendable = pl.w.Purge // how reference sets are listed for this plan (the node runs in child processes)
		if pl.w.Purge {
			run.Inc("plans_with_purge_unspendable")
		}
		wlFile := fmt.Sprintf("%s/wl%d.json", tmp, pi)
		jb, _ := json.Marshal(&pl.w)
		os.WriteFile(wlFile, jb, 0o644)
		finalWant := refList(pl.ref.Utxo)

		// pass 1: trace run (no crash) + clean restart
		dir := fmt.Sprintf("%s/p%d-trace", tmp, pi)
		trace := dir + ".trace"
		res := runBin([]string{"worker", wlFile, dir, dir + ".journal"}, []string{"VERIF_TRACE=" + trace}, 10*time.Minute)
		if res.TimedOut || res.ExitCode != 0 {
			run.Violation("worker-fails/no-crash", fmt.Sprintf("uninterrupted workload run died (exit %d %s)", res.ExitCode, res.Signal),
				map[string]interface{}{"plan": pi, "output_tail": vlib.Tail(res.Out, 3000), "workload_seed": pl.w.Seed})
			continue
		}
		counts := map[string]int{}
		if tb, err := os.ReadFile(trace); err == nil {
			for _, l := range strings.Split(string(tb), "\n") {
				if l != "" && !strings.HasPrefix(l, "CRASH") {
					counts[l]++
				}
			}
		}
		for k := range counts {
			run.Distinct("hook_points_hit", k)
		}
		// clean shutdown + restart must reproduce the final state exactly, in both modes
		for _, mode := range []string{"lib", "client"} {
			d2 := fmt.Sprintf("%s/p%d-clean-%s", tmp, pi, mode)
			exec.Command("cp", "-r", dir, d2).Run()
			judge(run, pl, wlFile, d2, mode, "clean-shutdown", len(pl.w.Ops)-1, finalWant, true)
			os.RemoveAll(d2)
		}
		os.RemoveAll(dir)

		// pass 2: crash enumeration
		type cp struct {
			name string
			n    int
		}
		var cps []cp
		var names []string
		for k := range counts {
			names = append(names, k)
		}
		sort.Strings(names)
		r := run.Rand(fmt.Sprint("crashpoints/", pi))
		for _, k := range names {
			c := counts[k]
			// always the first and the last hit, plus a sample in between
			pick := map[int]bool{1: true, c: true}
			for i := 0; i < 3; i++ {
				pick[1+r.Intn(c)] = true
			}
			if run.Thorough() {
				for i := 1; i <= c; i++ {
					pick[i] = true
				}
			}
			var ns []int
			for n := range pick {
				ns = append(ns, n)
			}
			sort.Ints(ns)
			for _, n := range ns {
				cps = append(cps, cp{k, n})
			}
		}
		if len(cps) > perPlan {
			perm := r.Perm(len(cps))
			sel := make([]cp, 0, perPlan)
			for _, i := range perm[:perPlan] {
				sel = append(sel, cps[i])
			}
			cps = sel
		}
		vlib.Parallel(len(cps), 12, func(i int) {
			c := cps[i]
			d := fmt.Sprintf("%s/p%d-c%d", tmp, pi, i)
			journal := d + ".journal"
			env := []string{fmt.Sprintf("VERIF_CRASH_AT=%s#%d", c.name, c.n)}
			if i%3 == 2 {
				// the goroutine that reaches the crash point is held there for a while before the kill: whatever runs
				// concurrently (the snapshot writer, the block writer) gets further first - a crash a little later in a
				// schedule in which this goroutine was not running
				env = append(env, "VERIF_CRASH_DELAY_MS=250")
				run.Inc("crash_runs_with_other_goroutines_running_on_before_the_kill")
			}
			res := runBin([]string{"worker", wlFile, d, journal}, env, 10*time.Minute)
			if res.TimedOut {
				run.Inconclusive("worker watchdog (crash point %s#%d)", c.name, c.n)
				os.RemoveAll(d)
				return
			}
			crashed := res.Signal != ""
			crashOp := len(pl.w.Ops) - 1
			if jb, err := os.ReadFile(journal); err == nil {
				ls := strings.Fields(string(jb))
				for j := len(ls) - 1; j >= 0; j-- {
					var v int
					if _, e := fmt.Sscan(ls[j], &v); e == nil {
						crashOp = v
						break
					}
				}
			}
			if !crashed && res.ExitCode != 0 {
				mu.Lock()
				run.Violation("worker-fails/"+c.name, fmt.Sprintf("workload run died without injected crash (exit %d)", res.ExitCode),
					map[string]interface{}{"plan": pi, "output_tail": vlib.Tail(res.Out, 3000)})
				mu.Unlock()
				os.RemoveAll(d)
				return
			}
			if !crashed {
				run.Inc("crash_point_not_reached")
			}
			for mi, mode := range []string{"lib", "client"} {
				d2 := d + "-" + mode
				exec.Command("cp", "-r", d, d2).Run()
				crash2 := ""
				if crashed && (i+mi)%3 == 0 {
					// deterministic choice of a second crash point from the hook names seen in the trace run
					crash2 = fmt.Sprintf("%s#%d", names[(i*7+mi*3)%len(names)], 1+(i/3)%3)
				}
				judge2(run, pl, wlFile, d2, mode, fmt.Sprintf("%s#%d", c.name, c.n), crashOp, finalWant, false, crash2)
				os.RemoveAll(d2)
			}
			os.RemoveAll(d)
			os.Remove(journal)
			run.Inc("crash_runs")
			run.Distinct("crash_points", pi, c.name, c.n)
			run.Distinct("crash_point_names", c.name)
		})
	}
	truncationTests(run, tmp, run.Seed)
	run.Assume("crash = process death (SIGKILL) with intact page cache; torn writes and power loss are out of scope")
	run.Assume("crash points exist where vhook.Point calls were placed: between every pair of file-system effects of UTXO save/commit/undo, block store writes, flag rewrites, reorganisation steps")
	run.Assume("client-style reopen re-implements do_the_blocks/LocalAcceptBlock of client/main.go in the harness (package main cannot be imported)")
	os.RemoveAll(tmp) // Finish exits the process: deferred clean-up would not run
	run.Finish("each evaluation = one (workload, crash point #n, reopen mode) triple: worker killed at the n-th hit of a hook point, directory reopened by a fresh process, tip/UTXO judged against the reference, remaining blocks fed, final state judged; distinct_nontrivial = distinct (workload, hook point, n)",
		"reopen_judged", "crash_points", 10)
}

var judgeMu sync.Mutex

// judge reopens dir in the given mode and applies the recovery oracle.
func judge(run *vlib.Run, pl *plan, wlFile, dir, mode, point string, crashOp int, finalWant []string, exact bool) {
	judge2(run, pl, wlFile, dir, mode, point, crashOp, finalWant, exact, "")
}

// judge2: with crash2 = "<hook point>#<n>" the recovery process itself is killed at that point first
// (a second crash, during recovery or while the remaining blocks are fed), then the directory is
// reopened once more and judged.
func judge2(run *vlib.Run, pl *plan, wlFile, dir, mode, point string, crashOp int, finalWant []string, exact bool, crash2 string) {
	out := dir + ".result"
	defer os.Remove(out)
	if crash2 != "" {
		r0 := runBin([]string{"reopen", wlFile, dir, mode, out}, []string{"VERIF_CRASH_AT=" + crash2}, 10*time.Minute)
		os.Remove(out)
		if r0.TimedOut {
			run.Inconclusive("recovery watchdog before second crash (%s, %s, %s)", mode, point, crash2)
			return
		}
		crashOp = len(pl.w.Ops) - 1 // the first recovery process may have been fed any (or all) of the blocks
		if r0.Signal != "" {
			run.Inc("second_crashes_during_recovery")
			run.Distinct("second_crash_points", crash2)
			point = point + "+" + crash2
		} else {
			run.Inc("second_crash_point_not_reached(recovery completed, closed cleanly)")
		}
	}
	res := runBin([]string{"reopen", wlFile, dir, mode, out}, nil, 10*time.Minute)
	var rr ReopenResult
	if b, err := os.ReadFile(out); err == nil {
		json.Unmarshal(b, &rr)
	}
	judgeMu.Lock()
	defer judgeMu.Unlock()
	pname := point
	if i := strings.IndexByte(point, '#'); i > 0 {
		pname = point[:i]
		if j := strings.IndexByte(point, '+'); j > 0 {
			k := strings.LastIndexByte(point, '#')
			pname += "+" + point[j+1:k]
		}
	}
	wit := map[string]interface{}{"workload_seed": pl.w.Seed, "mode": mode, "crash_point": point, "crash_op": crashOp,
		"ops": opsSummary(pl, crashOp), "replay_hint": "VERIF_SEED and the workload seed regenerate the workload; run worker with VERIF_CRASH_AT=" + point}
	if res.TimedOut {
		run.Inconclusive("reopen watchdog (%s, %s)", mode, point)
		return
	}
	run.Inc("reopen_judged")
	run.Inc("reopen_mode/" + mode)
	if res.ExitCode != 0 || rr.Opened == nil {
		wit["output_tail"] = vlib.Tail(res.Out, 2500)
		wit["err"] = rr.Err
		wit["stack"] = rr.Stack
		if mode == "client" && strings.Contains(rr.Stack, "clientStyleCatchUp") &&
			(strings.Contains(rr.Err, "end block is not higher then current") || strings.Contains(rr.Err, "unknown path to block") || strings.Contains(rr.Err, "Child not found")) {
			// the start-up loop of the client walks the block tree while CommitBlock removes a stored block that
			// turned out invalid (its descendants stay linked to the removed node): one specific, recorded defect
			run.Violation("reopen-fails/client/catch-up-walks-into-removed-invalid-branch", "client-style start-up loop panicked after a stored block failed validation: "+rr.Err, wit)
			return
		}
		run.Violation("reopen-fails/"+mode+"/"+pname, fmt.Sprintf("reopening the data directory failed (exit %d %s %s)", res.ExitCode, res.Signal, rr.Err), wit)
		return
	}
	// 1. reopened tip must be one the node had validated (a tip of the reference up to the crash op)
	// "a tip that the node had validated": a block that had been delivered to the node before the crash and
	// whose whole chain is valid (step 2 recomputes that by replay). It need not have been *the* tip before:
	// among branches of equal work the choice after a restart is not determined (the block index is rebuilt
	// in map order), and a stored side-branch block is validated and connected during recovery.
	okTip := rr.Opened.Tip == pl.w.Params.GenesisHash.String()
	for i := 0; i <= crashOp && i < len(pl.w.Ops) && !okTip; i++ {
		if pl.w.Ops[i].Kind == "block" && pl.w.Ops[i].Hash == rr.Opened.Tip {
			okTip = true
		}
	}
	if exact {
		okTip = rr.Opened.Tip == pl.finalTip.String()
	}
	wit["opened_tip"] = rr.Opened.Tip
	wit["opened_height"] = rr.Opened.Height
	if !okTip {
		run.Violation("tip-not-validated/"+mode+"/"+pname, "after reopen the tip is a block that had not been delivered to the node before the crash", wit)
		return
	}
	// 2. UTXO == replay of that tip
	var th refchain.Hash
	for _, n := range pl.ref.Nodes {
		if n.Hash.String() == rr.Opened.Tip {
			th = n.Hash
		}
	}
	want, ok := pl.ref.UtxoAt(th)
	if !ok {
		run.Violation("tip-not-validated/"+mode+"/"+pname, "after reopen the tip is on a chain the reference finds invalid", wit)
		return
	}
	if d := diffLists(rr.Opened.Utxo, refList(want)); d != "" {
		wit["utxo_diff"] = d
		run.Violation("utxo-not-replay-of-tip/"+mode+"/"+pname, "after reopen the UTXO set is not the replay of the reopened tip: "+d, wit)
		return
	}
	// 3. final state after feeding the remaining blocks
	if rr.Final == nil {
		wit["output_tail"] = vlib.Tail(res.Out, 2500)
		run.Violation("feed-after-reopen-fails/"+mode+"/"+pname, "feeding the remaining blocks after reopen failed", wit)
		return
	}
	if rr.Final.Tip != pl.finalTip.String() {
		wit["final_tip"] = rr.Final.Tip
		run.Violation("final-tip-differs/"+mode+"/"+pname, "after feeding the remaining blocks the tip differs from the uninterrupted run", wit)
		return
	}
	if d := diffLists(rr.Final.Utxo, finalWant); d != "" {
		wit["utxo_diff"] = d
		run.Violation("final-utxo-differs/"+mode+"/"+pname, "after feeding the remaining blocks the UTXO set differs from the uninterrupted run: "+d, wit)
		return
	}
	// 4. the recovery process shut down cleanly: one more restart must reproduce the final state exactly
	// (blocks stored after the recovery must not have damaged what was on disk before)
	out2 := dir + ".result2"
	defer os.Remove(out2)
	res2 := runBin([]string{"dump", wlFile, dir, mode, out2}, nil, 10*time.Minute)
	var rr2 ReopenResult
	if b, err := os.ReadFile(out2); err == nil {
		json.Unmarshal(b, &rr2)
	}
	if res2.TimedOut {
		run.Inconclusive("second-restart watchdog (%s, %s)", mode, point)
		return
	}
	if res2.ExitCode != 0 || rr2.Opened == nil {
		wit["output_tail"] = vlib.Tail(res2.Out, 2500)
		wit["err"] = rr2.Err
		run.Violation("second-restart-fails/"+mode+"/"+pname, fmt.Sprintf("after recovery, feeding the remaining blocks and a clean shutdown, the next restart failed (exit %d %s)", res2.ExitCode, rr2.Err), wit)
		return
	}
	if rr2.Opened.Tip != pl.finalTip.String() {
		wit["second_restart_tip"] = rr2.Opened.Tip
		run.Violation("second-restart-state-differs/"+mode+"/"+pname, "after recovery, feeding the remaining blocks and a clean shutdown, the next restart does not reproduce the final tip", wit)
		return
	}
	if d := diffLists(rr2.Opened.Utxo, finalWant); d != "" {
		wit["utxo_diff"] = d
		run.Violation("second-restart-state-differs/"+mode+"/"+pname, "after recovery and a clean shutdown the next restart does not reproduce the final UTXO set: "+d, wit)
		return
	}
	run.Inc("second_restarts_ok")
	run.Inc("recoveries_ok")
	if run.WantSample() {
		run.Sample(map[string]interface{}{"mode": mode, "crash_point": point, "crash_op": crashOp, "reopened_height": rr.Opened.Height, "final_height": rr.Final.Height})
	}
}

func opsSummary(pl *plan, upto int) []string {
	var l []string
	for i, op := range pl.w.Ops {
		if i < 100 {
			continue
		}
		s := fmt.Sprintf("%d %s %s %s", i, op.Kind, short8(op.Hash), op.Note)
		if i == upto {
			s += "   <== crash during this op"
		}
		l = append(l, s)
	}
	return l
}
func short8(s string) string {
	if len(s) > 12 {
		return s[:12]
	}
	return s
}
