// C16 — the block store returns exactly the blocks that were stored.
//
// Part 1 (hist.go): shadow model of chain.BlockDB over random histories of
// add / get / length / trusted / invalid / idle / close / reopen and an options matrix; the index
// file blockchain.new is re-parsed by an independent parser after every close, the data files are
// decoded with the reference snappy decoder (/verif/ref/snappyref), the LoadBlockIndex walk after a
// reopen is compared with the model, and earlier records must stay untouched by later appends.
// Part 2 (snap.go): lib/others/snappy alone between guard pages and canaries.
//
// Everything that touches the code under test runs in child processes (this binary re-executed, in
// four build variants: main, noasm, x386, race) which journal every case before executing it.
package main

import (
	"encoding/json"
	"fmt"
	"os"
	"path/filepath"
	"regexp"
	"sort"
	"strings"
	"sync"
	"time"

	"verif/lib/vlib"
	"verif/ref/snappyref"
)

// ---------------------------------------------------------------------------------------------
// child <-> parent protocol

type failure struct {
	Class   string      `json:"class"`
	What    string      `json:"what"`
	Witness interface{} `json:"witness"`
}

type childOut struct {
	Counters map[string]int64    `json:"counters"`
	Distinct map[string][]string `json:"distinct"`
	Failures []failure           `json:"failures"`
	Samples  []interface{}       `json:"samples"`
	Inconcl  []string            `json:"inconclusive"`
	Done     bool                `json:"done"`
}

type ctx struct {
	mu       sync.Mutex
	variant  string
	counters map[string]int64
	distinct map[string]map[string]struct{}
	failures []failure
	samples  []interface{}
	inconcl  []string
	journal  *os.File
	tmp      string
	failCnt  map[string]int
}

func newCtx() *ctx {
	c := &ctx{variant: os.Getenv("VERIF_VARIANT"), counters: map[string]int64{}, distinct: map[string]map[string]struct{}{},
		failCnt: map[string]int{}}
	if jf := os.Getenv("VERIF_JOURNAL"); jf != "" {
		c.journal, _ = os.Create(jf)
	}
	c.tmp = os.Getenv("VERIF_TMP")
	return c
}

func (c *ctx) add(k string, n int64) {
	c.mu.Lock()
	c.counters[k] += n
	c.mu.Unlock()
}
func (c *ctx) inc(k string) { c.add(k, 1) }
func (c *ctx) dist(set string, elem ...interface{}) {
	s := fmt.Sprint(elem...)
	c.mu.Lock()
	m := c.distinct[set]
	if m == nil {
		m = map[string]struct{}{}
		c.distinct[set] = m
	}
	m[s] = struct{}{}
	c.mu.Unlock()
}
func (c *ctx) jrnl(format string, a ...interface{}) {
	if c.journal != nil {
		fmt.Fprintf(c.journal, format+"\n", a...)
	}
}
func (c *ctx) fail(class, what string, witness interface{}) {
	c.mu.Lock()
	defer c.mu.Unlock()
	c.failCnt[class]++
	if c.failCnt[class] > 2 || len(c.failures) >= 12 {
		return
	}
	c.failures = append(c.failures, failure{class, what, witness})
}
func (c *ctx) sample(v interface{}) {
	c.mu.Lock()
	if len(c.samples) < 2 {
		c.samples = append(c.samples, v)
	}
	c.mu.Unlock()
}
func (c *ctx) write(done bool) {
	c.mu.Lock()
	defer c.mu.Unlock()
	out := childOut{Counters: c.counters, Distinct: map[string][]string{}, Failures: c.failures, Samples: c.samples, Inconcl: c.inconcl, Done: done}
	for k, m := range c.distinct {
		for e := range m {
			out.Distinct[k] = append(out.Distinct[k], e)
		}
	}
	b, _ := json.Marshal(&out)
	os.WriteFile(os.Getenv("VERIF_STATS"), b, 0o644)
}

// ---------------------------------------------------------------------------------------------
// parent

var reFrame = regexp.MustCompile(`(?m)^\s+(/\S+\.go):(\d+)`)
var reSel = regexp.MustCompile(`[A-Za-z_][A-Za-z0-9_]*(?:\.[A-Za-z_][A-Za-z0-9_]*)+`)

// raceClass names a race report by the struct field both accesses touch (the selector expression
// that the two source lines have in common, e.g. "rec.olen") plus the function pair, so that a
// known race on one field cannot hide a race on another one. Source lines are read as data.
func raceClass(block, sig string) string {
	var lines []string
	parts := regexp.MustCompile(`(?m)^(?:Previous )?(?:[Rr]ead|[Ww]rite|[Aa]tomic \w+) at .*$`).Split(block, -1)
	for _, p := range parts[1:] {
		if i := strings.Index(p, "\nGoroutine "); i >= 0 {
			p = p[:i]
		}
		for _, m := range reFrame.FindAllStringSubmatch(p, -1) {
			if strings.Contains(m[1], "/verif/") || !strings.Contains(m[1], "/lib/") {
				continue
			}
			if src, err := os.ReadFile(m[1]); err == nil {
				ls := strings.Split(string(src), "\n")
				var n int
				fmt.Sscan(m[2], &n)
				if n >= 1 && n <= len(ls) {
					lines = append(lines, ls[n-1])
				}
			}
			break
		}
	}
	field := "?"
	if len(lines) == 2 {
		best := ""
		for _, a := range reSel.FindAllString(lines[0], -1) {
			for _, b := range reSel.FindAllString(lines[1], -1) {
				if a == b && len(a) > len(best) && !strings.HasPrefix(a, "db.mutex") {
					best = a
				}
			}
		}
		if best != "" {
			field = best
		}
	}
	return "race/" + field + "/" + sig
}

type job struct {
	Variant string   `json:"variant"`
	Mode    string   `json:"mode"` // hist | snappy
	Args    []string `json:"args"`
	Procs   int      `json:"gomaxprocs"`
}

func main() {
	if len(os.Args) > 2 && os.Args[1] == "child" {
		switch os.Args[2] {
		case "hist":
			childHist(os.Args[3:])
		case "snappy":
			childSnappy(os.Args[3:])
		}
		return
	}
	run := vlib.Start("C16", "exploration")
	if err := snappyref.SelfTest(); err != nil {
		fmt.Printf("BROKEN property=C16 reference snappy codec failed its self-test: %v\n", err)
		os.Exit(2)
	}
	if err := parserSelfTest(); err != nil {
		fmt.Printf("BROKEN property=C16 index parser self-test: %v\n", err)
		os.Exit(2)
	}
	bindir := os.Getenv("VERIF_BIN_DIR")
	if bindir == "" {
		bindir = "/verif/bin"
	}
	bin := func(v string) string { return filepath.Join(bindir, "c16."+v) }
	for _, v := range []string{"main", "noasm", "x386", "race"} {
		if _, err := os.Stat(bin(v)); err != nil {
			fmt.Printf("BROKEN property=C16 build variant %s missing (%v)\n", v, err)
			os.Exit(2)
		}
	}

	var jobs []job
	replay := ""
	for i, a := range os.Args {
		if a == "--replay" && i+1 < len(os.Args) {
			replay = os.Args[i+1]
		}
	}
	if replay != "" {
		b, err := os.ReadFile(replay)
		var doc struct {
			Witness struct {
				Job job `json:"job"`
			} `json:"witness"`
		}
		if err != nil || json.Unmarshal(b, &doc) != nil || doc.Witness.Job.Variant == "" {
			fmt.Printf("BROKEN property=C16 cannot read replay %s\n", replay)
			os.Exit(2)
		}
		jobs = append(jobs, doc.Witness.Job)
	} else {
		r := run.Rand("jobs")
		// histories: (variant, number of children, histories per child, ops per history, readers, size scale)
		type hplan struct {
			v                          string
			children, per, ops, rd, sc int
		}
		plans := []hplan{
			{"main", run.N(28, 400), run.N(4, 10), 200, 0, 2},
			{"main", run.N(6, 50), run.N(3, 10), 200, 3, 1},
			{"noasm", run.N(14, 200), run.N(4, 10), 200, 0, 2},
			{"x386", run.N(14, 200), run.N(4, 10), 200, 0, 2},
			{"race", run.N(18, 150), run.N(4, 10), 200, 3, 1},
		}
		for _, p := range plans {
			for k := 0; k < p.children; k++ {
				procs := []int{4, 2, 8, 1}[k%4]
				jobs = append(jobs, job{p.v, "hist", []string{fmt.Sprint(r.U64()), fmt.Sprint(p.per), fmt.Sprint(p.ops), fmt.Sprint(p.rd), fmt.Sprint(p.sc), "normal"}, procs})
			}
		}
		// one directed + burst history per variant (flush thresholds inside BlockAdd: 1024 blocks / 16 MiB)
		for _, v := range []string{"main", "noasm", "x386", "race"} {
			jobs = append(jobs, job{v, "hist", []string{fmt.Sprint(r.U64()), "1", "60", "0", "1", "directed"}, 4})
			jobs = append(jobs, job{v, "hist", []string{fmt.Sprint(r.U64()), "1", "60", "0", "1", "burst-small"}, 4})
			if v != "race" || run.Thorough() {
				jobs = append(jobs, job{v, "hist", []string{fmt.Sprint(r.U64()), "1", "40", "0", "2", "burst-big"}, 4})
			}
		}
		// snappy alone
		for _, v := range []string{"main", "noasm", "x386"} {
			for k := 0; k < run.N(6, 40); k++ {
				jobs = append(jobs, job{v, "snappy", []string{fmt.Sprint(r.U64()), fmt.Sprint(run.N(700, 3000)), fmt.Sprint(run.N(1200, 6000)), fmt.Sprint(run.N(2500, 12000))}, 2})
			}
		}
	}

	tmp, err := os.MkdirTemp("", "c16-")
	if err != nil {
		fmt.Printf("BROKEN property=C16 cannot create scratch directory: %v\n", err)
		os.Exit(2)
	}
	defer os.RemoveAll(tmp)

	var mu sync.Mutex
	// heavier jobs first so that the tail is short
	order := make([]int, len(jobs))
	for i := range order {
		order[i] = i
	}
	weight := func(j job) int {
		w := 1
		if j.Variant == "race" {
			w += 3
		}
		if j.Mode == "hist" && j.Args[5] != "normal" {
			w += 2
		}
		return w
	}
	sort.SliceStable(order, func(a, b int) bool { return weight(jobs[order[a]]) > weight(jobs[order[b]]) })

	vlib.Parallel(len(jobs), run.N(8, 14), func(k int) {
		i := order[k]
		j := jobs[i]
		sf := fmt.Sprintf("%s/stats%d.json", tmp, i)
		jf := fmt.Sprintf("%s/journal%d.txt", tmp, i)
		wd := fmt.Sprintf("%s/w%d", tmp, i)
		os.MkdirAll(wd, 0o755)
		args := append([]string{"child", j.Mode}, j.Args...)
		env := []string{"VERIF_STATS=" + sf, "VERIF_JOURNAL=" + jf, "VERIF_TMP=" + wd, "VERIF_VARIANT=" + j.Variant,
			fmt.Sprintf("GOMAXPROCS=%d", j.Procs), "GORACE=halt_on_error=0 exitcode=66", "GOTRACEBACK=single"}
		res := vlib.RunChild(bin(j.Variant), args, env, nil, time.Duration(run.N(8, 60))*time.Minute)
		os.RemoveAll(wd)
		desc := map[string]interface{}{"job": j}
		journalTail := func() string {
			b, _ := os.ReadFile(jf)
			return vlib.Tail(b, 2500)
		}
		if res.TimedOut {
			run.Inconclusive("child watchdog fired: %v (journal tail: %s)", j, vlib.Tail([]byte(journalTail()), 300))
			return
		}
		var co childOut
		if b, err := os.ReadFile(sf); err == nil {
			json.Unmarshal(b, &co)
		}
		mu.Lock()
		defer mu.Unlock()
		for k, v := range co.Counters {
			run.Count(k, v)
			run.Count(j.Variant+"/"+k, v)
		}
		for set, el := range co.Distinct {
			for _, e := range el {
				run.Distinct(set, e)
			}
		}
		for _, s := range co.Inconcl {
			run.Inconclusive("%s", s)
		}
		for _, s := range co.Samples {
			run.Sample(s)
		}
		for _, f := range co.Failures {
			w := map[string]interface{}{"job": j, "detail": f.Witness}
			run.Violation(f.Class, f.What, w)
		}
		out := string(res.Out)
		if strings.Contains(out, "WARNING: DATA RACE") {
			for _, rr := range vlib.ParseRaces(out, "github.com/piotrnar/gocoin/") {
				w := map[string]interface{}{"job": j, "report": rr.Block, "occurrences": rr.N}
				cls := raceClass(rr.Block, rr.Sig)
				run.Violation(cls, "data race in the block store under one writer thread and concurrent readers: "+cls, w)
			}
		}
		if !co.Done {
			// the child died: fatal error, unrecovered panic in a goroutine, os.Exit in library code, SIGSEGV on a guard page
			desc["journal_tail"] = journalTail()
			desc["output_tail"] = vlib.Tail(res.Out, 3000)
			cls := "child-died/" + j.Mode
			switch {
			case strings.Contains(out, "unexpected fault address") || strings.Contains(out, "SIGSEGV"):
				cls += "/fault"
			case strings.Contains(out, "fatal error:"):
				cls += "/fatal"
			case strings.Contains(out, "panic:"):
				cls += "/panic"
			}
			run.Violation(cls, fmt.Sprintf("worker died (exit %d signal %q) while executing the last journaled case", res.ExitCode, res.Signal), desc)
			return
		}
		run.Count("children_ok", 1)
		run.Distinct("variants", j.Variant, j.Mode)
	})

	// a run that never exercised one of the four builds or one of the two parts observed too little
	holes := 0
	if replay == "" && run.Violations() == 0 {
		for _, v := range []string{"main", "noasm", "x386", "race"} {
			if run.Get(v+"/histories") == 0 {
				run.Inconclusive("no history completed in build variant %s", v)
				holes++
			}
		}
		for _, v := range []string{"main", "noasm", "x386"} {
			if run.Get(v+"/snappy_roundtrips") == 0 {
				run.Inconclusive("no snappy round trip in build variant %s", v)
				holes++
			}
		}
		for _, k := range []string{"get_from_disk_or_disk_cache", "get_from_add_cache", "rollovers_observed", "reopens", "walk_entries_compared",
			"index_records_compared", "invalid_queued", "invalid_written", "reader_gets_judged", "flush_inside_blockadd", "data_extents_decoded_by_reference"} {
			if run.Get(k) == 0 {
				run.Inconclusive("coverage counter %s is zero", k)
				holes++
			}
		}
	}
	run.Assume("the client drives BlockDB with one mutating thread (BlockAdd/Idle/BlockTrusted/BlockInvalid/Close) and any number of reader threads (BlockGet*, BlockLength, GetStats); the monitor does the same")
	run.Assume("a block marked invalid, and a block whose data file left the retention window (file index + DataFilesKeep < highest file index ever used), may be absent; if returned it must still be byte-identical")
	run.Assume("marking a trusted block invalid (panics on purpose) and re-adding an invalidated block are outside the quantifier")
	run.Assume("BlockLength of a block that is still queued is unspecified (observed: 0); BlockLength(h,false) may return the stored (compressed) length")
	minDistinct := run.N(150, 400)
	if replay != "" {
		minDistinct = 1
	}
	if holes > 0 && run.Violations() == 0 {
		// a coverage hole makes the run as a whole "observed too little": exit 2, never a VIOLATION
		fmt.Printf("BROKEN property=C16 %d coverage holes (see INCONCLUSIVE lines)\n", holes)
		minDistinct = 1 << 30
	}
	run.Finish("each evaluation = one judged observation of the real BlockDB / snappy (get, length, index record, walk entry, data extent, round trip, hostile decode) against the shadow model / reference codec; distinct_nontrivial = distinct (variant, op, block state, options, content family, size class) tuples", "judged", "cases", minDistinct)
}
