package main

// Part 1: shadow model of chain.BlockDB.

import (
	"bytes"
	"compress/gzip"
	"encoding/binary"
	"fmt"
	"io"
	"os"
	"path/filepath"
	"runtime/debug"
	"sort"
	"strconv"
	"strings"
	"sync"
	"sync/atomic"
	"time"

	"github.com/piotrnar/gocoin/lib/btc"
	"github.com/piotrnar/gocoin/lib/chain"
	"verif/lib/vlib"
	"verif/ref/snappyref"
)

// ---------------------------------------------------------------------------------------------
// independent parser of blockchain.new (layout taken from the format comment in blockdb.go:
// 136-byte records, LSB: [0] flags, [28:32] data file index (if flag 0x20), [32:36] original
// length (if flag 0x10), [36:40] height, [40:48] position, [48:52] stored length, [52:56] tx count,
// [56:136] header; the block hash is the double SHA-256 of the header).

const (
	fTrusted = 0x01
	fInvalid = 0x02
	fComprsd = 0x04
	fSnappy  = 0x08
	fHasLen  = 0x10
	fHasIdx  = 0x20
	recSize  = 136
)

type irec struct {
	off     int64
	raw     [recSize]byte
	flags   byte
	datIdx  uint32
	size    uint32 // original length of the block as listed by the index
	height  uint32
	fpos    uint64
	blen    uint32
	txs     uint32
	hash    [32]byte
	invalid bool
}

func parseIndexBytes(b []byte) (recs []irec, tail int) {
	for off := 0; off+recSize <= len(b); off += recSize {
		var rc irec
		copy(rc.raw[:], b[off:off+recSize])
		rc.off = int64(off)
		rc.flags = rc.raw[0]
		rc.invalid = rc.flags&fInvalid != 0
		rc.height = binary.LittleEndian.Uint32(rc.raw[36:40])
		rc.fpos = binary.LittleEndian.Uint64(rc.raw[40:48])
		rc.blen = binary.LittleEndian.Uint32(rc.raw[48:52])
		rc.txs = binary.LittleEndian.Uint32(rc.raw[52:56])
		rc.size = rc.blen
		if rc.flags&fHasLen != 0 {
			rc.size = binary.LittleEndian.Uint32(rc.raw[32:36])
		}
		if rc.flags&fHasIdx != 0 {
			rc.datIdx = binary.LittleEndian.Uint32(rc.raw[28:32])
		}
		rc.hash = sha256d(rc.raw[56:136])
		recs = append(recs, rc)
	}
	return recs, len(b) % recSize
}

func parserSelfTest() error {
	// one hand-assembled record
	var r [recSize]byte
	r[0] = 0x39 // trusted|snappy|len|idx
	copy(r[28:], []byte{2, 0, 0, 0, 0x10, 0x27, 0, 0, 7, 0, 0, 0, 0x00, 0x01, 0, 0, 0, 0, 0, 0, 0x55, 0, 0, 0, 3, 0, 0, 0})
	for i := 56; i < 136; i++ {
		r[i] = byte(i)
	}
	recs, tail := parseIndexBytes(append(r[:], 1, 2, 3))
	if len(recs) != 1 || tail != 3 {
		return fmt.Errorf("record count")
	}
	x := recs[0]
	if x.datIdx != 2 || x.size != 10000 || x.height != 7 || x.fpos != 256 || x.blen != 0x55 || x.txs != 3 || x.invalid || x.flags&fTrusted == 0 {
		return fmt.Errorf("field decoding: %+v", x)
	}
	// sha256d of 80 zero bytes (internal byte order; displayed reversed as 14508459…e74b)
	z := sha256d(make([]byte, 80))
	if vlib.Hex(z[:]) != "4be7570e8f70eb093640c8468274ba759745a7aa2b7d25ab1e0421b259845014" {
		return fmt.Errorf("sha256d: %x", z)
	}
	return nil
}

// ---------------------------------------------------------------------------------------------
// model

type hopts struct {
	Compress bool
	Cache    int
	MaxFile  uint64
	Keep     uint32
	Backup   bool
}

type mblock struct {
	id        int
	raw       []byte // the model's private copy (the store gets another copy)
	hash      [32]byte
	u         *btc.Uint256
	height    uint32
	txcount   uint32
	fam       string
	szc       string
	viaStruct bool
	session   int

	added, trusted, invalid bool
	written                 bool // observed: flushed to disk (Idle/Close/flush inside BlockAdd)
	reopened                bool // survived at least one close/reopen
	mayInv                  bool // may be invalidated during the current session (readers do not judge it)

	hasRec bool
	recOff int64
	rec    [recSize]byte
	datIdx uint32
	recLen uint32
}

func (b *mblock) live() bool { return b.added && !b.invalid }
func (b *mblock) state() string {
	switch {
	case !b.added:
		return "unknown"
	case b.invalid:
		return "invalid"
	case b.reopened:
		return "reopened"
	case b.written:
		return "written"
	}
	return "queued"
}
func (b *mblock) desc() string {
	s := fmt.Sprintf("#%d %s len=%d fam=%s h=%d txs=%d state=%s trusted=%v", b.id, vlib.Hex(b.hash[:6]), len(b.raw), b.fam, b.height, b.txcount, b.state(), b.trusted)
	if len(b.raw) <= 200 {
		s += " raw=" + vlib.Hex(b.raw)
	}
	return s
}

type div struct {
	class, what string
	b           *mblock
}

type walkEnt struct {
	hash         [32]byte
	hdr          [80]byte
	height, blen uint32
	txs          uint32
}

type hist struct {
	c       *ctx
	r       *vlib.Rand
	hi      int
	seed    uint64
	dir     string
	opts    hopts
	family  string // strict | bugshape
	profile string
	scale   int
	nread   int

	db       *chain.BlockDB
	blocks   []*mblock
	byHash   map[[32]byte]*mblock
	queued   []*mblock
	session  int
	height   uint32
	nrec     int64 // observed number of index records
	bytes    int
	trace    []string
	mtrace   []string // everything except get/length
	dead     bool
	panicked bool
	lastRW   bool

	maxIdxEver uint32

	// state of the index file at the last close (for the known LoadBlockIndex defect)
	slots   []irec
	tainted bool
}

// progress / reader-panic watchdog: a reader that panics inside the store leaves db.mutex locked,
// the mutating thread then blocks for ever inside its next call. The watchdog goroutine reports the
// panic and ends the child instead of waiting for the parent's watchdog.
var (
	opSeq       atomic.Int64
	readerPanic atomic.Pointer[string]
	curHist     atomic.Pointer[hist]
)

func panicWatch(c *ctx) {
	var seenAt time.Time
	var seq int64
	for {
		time.Sleep(200 * time.Millisecond)
		msg := readerPanic.Load()
		if msg == nil {
			continue
		}
		if s := opSeq.Load(); s != seq || seenAt.IsZero() {
			seq, seenAt = s, time.Now()
			continue
		}
		if time.Since(seenAt) > 8*time.Second {
			w := map[string]interface{}{"note": "the mutating thread blocked inside the store after this panic of a reader thread"}
			if h := curHist.Load(); h != nil {
				w["history"], w["history_seed"], w["options"], w["variant"] = h.hi, h.seed, h.opts, c.variant
			}
			c.fail("panic/reader", *msg, w)
			c.write(true)
			os.Exit(0)
		}
	}
}

func (h *hist) log(format string, a ...interface{}) {
	opSeq.Add(1)
	s := fmt.Sprintf(format, a...)
	h.trace = append(h.trace, s)
	if !strings.HasPrefix(s, "get ") && !strings.HasPrefix(s, "length ") {
		h.mtrace = append(h.mtrace, fmt.Sprintf("%d: %s", len(h.trace), s))
	}
	h.c.jrnl("  h%d %s", h.hi, s)
}

func (h *hist) witness(extra map[string]interface{}) map[string]interface{} {
	tr := h.trace
	if len(tr) > 15 {
		tr = tr[len(tr)-15:]
	}
	mt := h.mtrace
	if len(mt) > 80 {
		mt = mt[len(mt)-80:]
	}
	w := map[string]interface{}{"history": h.hi, "history_seed": h.seed, "options": h.opts, "family": h.family, "profile": h.profile,
		"variant": h.c.variant, "readers": h.nread, "session": h.session, "ops_total": len(h.trace), "last_ops": tr, "last_mutating_ops": mt}
	for k, v := range extra {
		w[k] = v
	}
	return w
}

func (h *hist) fail(d div) {
	ex := map[string]interface{}{}
	if d.b != nil {
		ex["block"] = d.b.desc()
	}
	h.c.fail(d.class, d.what, h.witness(ex))
	h.dead = true
}

func (h *hist) judgeStrict(divs []div) bool {
	for i, d := range divs {
		if i < 3 {
			h.fail(d)
		}
	}
	return len(divs) == 0
}

func (h *hist) idxPath() string { return filepath.Join(h.dir, "blockchain.new") }

func (h *hist) readIndex() ([]irec, int) {
	b, _ := os.ReadFile(h.idxPath())
	recs, tail := parseIndexBytes(b)
	for _, rc := range recs {
		if rc.blen > 0 && rc.datIdx != 0xffffffff && rc.datIdx > h.maxIdxEver {
			h.maxIdxEver = rc.datIdx
		}
	}
	return recs, tail
}

func (h *hist) statRecs() int64 {
	fi, err := os.Stat(h.idxPath())
	if err != nil {
		return 0
	}
	return fi.Size() / recSize
}

// dataFile locates the data file with the given index: (path, fromBackup) or "".
func (h *hist) dataFile(idx uint32) (string, bool) {
	names := []string{fmt.Sprintf("blockchain-%08x.dat", idx), fmt.Sprintf("bl%08d.dat", idx)}
	if idx == 0 {
		names = append([]string{"blockchain.dat"}, names...)
	}
	for _, sub := range []string{"", "oldat"} {
		for _, n := range names {
			p := filepath.Join(h.dir, sub, n)
			if fi, err := os.Stat(p); err == nil && fi.Mode().IsRegular() {
				return p, sub != ""
			}
		}
	}
	return "", false
}

// outOfRetention: the data file may have been removed according to the configured retention.
func (h *hist) outOfRetention(datIdx uint32) bool {
	return h.opts.Keep != 0 && h.opts.MaxFile != 0 && uint64(datIdx)+uint64(h.opts.Keep) < uint64(h.maxIdxEver)
}

// ---------------------------------------------------------------------------------------------
// index oracle

func (h *hist) checkIndex(afterClose bool) (divs []div) {
	recs, tail := h.readIndex()
	if tail != 0 {
		divs = append(divs, div{"index/partial-record-at-end", fmt.Sprintf("index file length is not a multiple of 136 (%d extra bytes)", tail), nil})
	}
	seen := map[*mblock]bool{}
	type ext struct {
		b        *mblock
		from, to uint64
	}
	extents := map[uint32][]ext{}
	dead := 0
	for _, rc := range recs {
		b := h.byHash[rc.hash]
		if rc.invalid {
			dead++
			continue
		}
		if b == nil || !b.added {
			divs = append(divs, div{"index/valid-record-for-unknown-block", fmt.Sprintf("record at %d lists a block that was never stored (hash %x)", rc.off, rc.hash[:8]), nil})
			continue
		}
		if b.invalid {
			divs = append(divs, div{"index/invalidated-block-listed-as-valid", fmt.Sprintf("record at %d lists block %s without the invalid flag", rc.off, b.desc()), b})
			continue
		}
		if seen[b] {
			divs = append(divs, div{"index/duplicate-record", fmt.Sprintf("second valid record at %d for block %s", rc.off, b.desc()), b})
			continue
		}
		seen[b] = true
		h.c.inc("index_records_compared")
		h.c.inc("judged")
		if rc.height != b.height {
			divs = append(divs, div{"index/wrong-height", fmt.Sprintf("record at %d: height %d, stored with %d: %s", rc.off, rc.height, b.height, b.desc()), b})
		}
		if rc.txs != b.txcount {
			divs = append(divs, div{"index/wrong-txcount", fmt.Sprintf("record at %d: tx count %d, stored with %d: %s", rc.off, rc.txs, b.txcount, b.desc()), b})
		}
		if rc.size != uint32(len(b.raw)) {
			divs = append(divs, div{"index/wrong-size", fmt.Sprintf("record at %d: size %d, block has %d bytes: %s", rc.off, rc.size, len(b.raw), b.desc()), b})
		}
		if (rc.flags&fTrusted != 0) != b.trusted {
			divs = append(divs, div{"index/wrong-trusted-flag", fmt.Sprintf("record at %d: trusted flag %v, model %v: %s", rc.off, rc.flags&fTrusted != 0, b.trusted, b.desc()), b})
		}
		if b.hasRec {
			if rc.off != b.recOff {
				divs = append(divs, div{"index/record-moved", fmt.Sprintf("record of %s moved from offset %d to %d", b.desc(), b.recOff, rc.off), b})
			} else if !bytes.Equal(rc.raw[1:], b.rec[1:]) || (rc.raw[0]^b.rec[0])&^fTrusted != 0 {
				divs = append(divs, div{"index/earlier-record-changed", fmt.Sprintf("record at %d of %s changed: was %x now %x", rc.off, b.desc(), b.rec[:56], rc.raw[:56]), b})
			}
		}
		b.hasRec, b.recOff, b.rec, b.datIdx, b.recLen, b.written = true, rc.off, rc.raw, rc.datIdx, rc.blen, true
		extents[rc.datIdx] = append(extents[rc.datIdx], ext{b, rc.fpos, rc.fpos + uint64(rc.blen)})

		// data extent decoded independently
		path, fromBak := h.dataFile(rc.datIdx)
		if path == "" {
			if h.outOfRetention(rc.datIdx) {
				h.c.inc("data_file_absent_out_of_retention")
			} else {
				divs = append(divs, div{"index/data-file-missing-within-retention", fmt.Sprintf("data file %d of %s does not exist (highest file index %d, keep %d)", rc.datIdx, b.desc(), h.maxIdxEver, h.opts.Keep), b})
			}
			continue
		}
		if fromBak {
			h.c.inc("data_file_in_backup_dir")
		}
		if d := h.checkExtent(path, rc, b); d != nil {
			divs = append(divs, *d)
		}
	}
	h.c.add("index_dead_records_seen", int64(dead))
	for _, b := range h.blocks {
		if !b.live() || seen[b] {
			continue
		}
		if b.hasRec {
			divs = append(divs, div{"index/earlier-record-overwritten", fmt.Sprintf("the record of %s (offset %d) is no longer in the index", b.desc(), b.recOff), b})
		} else if afterClose || b.written {
			divs = append(divs, div{"index/missing-record", fmt.Sprintf("no index record for stored block %s", b.desc()), b})
		}
	}
	for idx, ex := range extents {
		sort.Slice(ex, func(i, j int) bool { return ex[i].from < ex[j].from })
		for i := 1; i < len(ex); i++ {
			if ex[i-1].to > ex[i].from {
				divs = append(divs, div{"index/data-extents-overlap", fmt.Sprintf("data file %d: [%d,%d) of %s overlaps [%d,%d) of %s", idx, ex[i-1].from, ex[i-1].to, ex[i-1].b.desc(), ex[i].from, ex[i].to, ex[i].b.desc()), ex[i].b})
			}
		}
	}
	if afterClose {
		h.slots = recs
		h.tainted = false
		sawDead := false
		for _, rc := range recs {
			if rc.invalid {
				sawDead = true
			} else if sawDead {
				h.tainted = true
			}
		}
	}
	return
}

func (h *hist) checkExtent(path string, rc irec, b *mblock) *div {
	f, err := os.Open(path)
	if err != nil {
		return nil
	}
	defer f.Close()
	buf := make([]byte, rc.blen)
	if _, err := f.ReadAt(buf, int64(rc.fpos)); err != nil {
		return &div{"index/data-extent-beyond-file", fmt.Sprintf("record at %d points to [%d,+%d) of %s: %v; block %s", rc.off, rc.fpos, rc.blen, filepath.Base(path), err, b.desc()), b}
	}
	var plain []byte
	switch {
	case rc.flags&fComprsd == 0:
		plain = buf
	case rc.flags&fSnappy != 0:
		plain, err = snappyref.Decode(buf, 64<<20)
		if err != nil {
			return &div{"index/data-not-decodable-by-reference-snappy", fmt.Sprintf("stored data of %s is not a valid snappy block: %v", b.desc(), err), b}
		}
	default:
		gz, e := gzip.NewReader(bytes.NewReader(buf))
		if e == nil {
			plain, _ = io.ReadAll(gz)
		}
	}
	h.c.inc("data_extents_decoded_by_reference")
	h.c.inc("judged")
	if !bytes.Equal(plain, b.raw) {
		return &div{"index/data-differs-from-stored-block", fmt.Sprintf("data file content of %s decodes to %d bytes that differ from the stored block (first difference at %d)", b.desc(), len(plain), firstDiff(plain, b.raw)), b}
	}
	return nil
}

func firstDiff(a, b []byte) int {
	n := min(len(a), len(b))
	for i := 0; i < n; i++ {
		if a[i] != b[i] {
			return i
		}
	}
	return n
}

// ---------------------------------------------------------------------------------------------
// open / walk / get oracles

func (h *hist) open() (divs []div) {
	var ents []walkEnt
	ok := h.safe("open", func() {
		o := &chain.BlockDBOpts{MaxCachedBlocks: h.opts.Cache, MaxDataFileSize: h.opts.MaxFile, DataFilesKeep: h.opts.Keep,
			DataFilesBackup: h.opts.Backup, CompressOnDisk: h.opts.Compress}
		h.db = chain.NewBlockDBExt(h.dir, o)
		h.db.LoadBlockIndex(nil, func(_ *chain.Chain, hash, hdr []byte, height, blen, txs uint32) {
			var e walkEnt
			copy(e.hash[:], hash)
			copy(e.hdr[:], hdr)
			e.height, e.blen, e.txs = height, blen, txs
			ents = append(ents, e)
		})
	})
	if !ok {
		return
	}
	h.session++
	h.nrec = h.statRecs()
	h.queued = nil
	h.log("open session=%d opts=%+v walk=%d", h.session, h.opts, len(ents))
	h.c.dist("configs", h.opts.Compress, h.opts.Cache, h.opts.MaxFile, h.opts.Keep, h.opts.Backup)
	if h.session == 1 {
		if len(ents) != 0 {
			divs = append(divs, div{"walk/entries-in-empty-store", "LoadBlockIndex reported blocks for an empty directory", nil})
		}
		return
	}
	h.c.inc("reopens")
	seen := map[*mblock]bool{}
	for _, e := range ents {
		b := h.byHash[e.hash]
		if b == nil || !b.added {
			divs = append(divs, div{"walk/unknown-block", fmt.Sprintf("LoadBlockIndex listed a block that was never stored (%x)", e.hash[:8]), nil})
			continue
		}
		if b.invalid {
			divs = append(divs, div{"walk/invalidated-block-listed", "LoadBlockIndex listed invalidated block " + b.desc(), b})
			continue
		}
		if seen[b] {
			divs = append(divs, div{"walk/duplicate", "LoadBlockIndex listed twice: " + b.desc(), b})
			continue
		}
		seen[b] = true
		h.c.inc("walk_entries_compared")
		h.c.inc("judged")
		h.c.dist("cases", h.c.variant, "walk", b.szc, b.fam, h.opts.Compress)
		switch {
		case !bytes.Equal(e.hdr[:], b.raw[:80]):
			divs = append(divs, div{"walk/wrong-header", "LoadBlockIndex passed a different header for " + b.desc(), b})
		case e.height != b.height:
			divs = append(divs, div{"walk/wrong-height", fmt.Sprintf("LoadBlockIndex height %d for %s", e.height, b.desc()), b})
		case e.blen != uint32(len(b.raw)):
			divs = append(divs, div{"walk/wrong-size", fmt.Sprintf("LoadBlockIndex size %d for %s", e.blen, b.desc()), b})
		case e.txs != b.txcount:
			divs = append(divs, div{"walk/wrong-txcount", fmt.Sprintf("LoadBlockIndex tx count %d for %s", e.txs, b.desc()), b})
		}
	}
	for _, b := range h.blocks {
		if b.live() {
			if !seen[b] {
				divs = append(divs, div{"walk/missing-block", "LoadBlockIndex did not list stored block " + b.desc(), b})
			}
			b.reopened = true
		}
	}
	return
}

func (h *hist) safe(name string, f func()) (ok bool) {
	defer func() {
		if x := recover(); x != nil {
			st := string(debug.Stack())
			if i := strings.Index(st, "panic("); i > 0 {
				st = st[i:]
			}
			if len(st) > 1500 {
				st = st[:1500]
			}
			h.c.fail("panic/"+name, fmt.Sprintf("%s panicked: %v", name, x), h.witness(map[string]interface{}{"stack": st}))
			h.dead = true
			h.panicked = true // the store may hold its mutex forever: never call into it again
			ok = false
		}
	}()
	f()
	return true
}

func (h *hist) close() {
	h.log("close")
	h.safe("close", func() { h.db.Close() })
	for _, b := range h.queued {
		b.written = true
	}
	h.queued = nil
	h.db = nil
}

var apiNames = []string{"BlockGet", "BlockGetExt", "BlockGetInternal(nocache)"}

func dbGet(db *chain.BlockDB, u *btc.Uint256, api int) (data []byte, trusted bool, fromAdd bool, err error) {
	switch api {
	case 0:
		data, trusted, err = db.BlockGet(u)
	case 1:
		var cr *chain.BlckCachRec
		cr, trusted, err = db.BlockGetExt(u)
		if cr != nil {
			data = cr.Data
			fromAdd = cr.Block != nil
		}
	default:
		var cr *chain.BlckCachRec
		cr, trusted, err = db.BlockGetInternal(u, true)
		if cr != nil {
			data = cr.Data
			fromAdd = cr.Block != nil
		}
	}
	return
}

func (h *hist) get(b *mblock, api int) (divs []div) {
	var data []byte
	var trusted, fromAdd bool
	var err error
	h.log("get %s #%d (%s)", apiNames[api], b.id, b.state())
	if !h.safe("get", func() { data, trusted, fromAdd, err = dbGet(h.db, b.u, api) }) {
		return
	}
	h.c.inc("gets")
	st := b.state()
	switch st {
	case "unknown":
		h.c.inc("judged")
		h.c.inc("get_never_stored")
		if err == nil {
			divs = append(divs, div{"get/returns-data-for-a-hash-never-stored", fmt.Sprintf("%s returned %d bytes for a hash that was never stored", apiNames[api], len(data)), b})
		}
		return
	case "invalid":
		h.c.inc("get_after_invalid(unconstrained)")
		return
	}
	h.c.inc("judged")
	h.c.dist("cases", h.c.variant, "get", api, st, b.szc, b.fam, h.opts.Compress, h.opts.Cache == 1)
	if err != nil {
		// absent is acceptable only outside the retention window
		recs, _ := h.readIndex()
		found := false
		var idx uint32
		for _, rc := range recs {
			if rc.hash == b.hash {
				found, idx = true, rc.datIdx
			}
		}
		switch {
		case !found:
			divs = append(divs, div{"get/error-no-index-record/" + st, fmt.Sprintf("%s: %v for a stored block that has no index record (still queued, or its record was lost): %s", apiNames[api], err, b.desc()), b})
		case h.outOfRetention(idx):
			h.c.inc("get_absent_out_of_retention")
		default:
			divs = append(divs, div{"get/error-within-retention/" + st, fmt.Sprintf("%s: %v for %s (data file %d, highest %d, keep %d)", apiNames[api], err, b.desc(), idx, h.maxIdxEver, h.opts.Keep), b})
		}
		return
	}
	if fromAdd || st == "queued" {
		h.c.inc("get_from_add_cache")
	} else {
		h.c.inc("get_from_disk_or_disk_cache")
	}
	cmp := "plain"
	if h.opts.Compress {
		cmp = "compressed"
	}
	if !bytes.Equal(data, b.raw) {
		divs = append(divs, div{"get/wrong-bytes/" + st + "/" + cmp, fmt.Sprintf("%s returned %d bytes differing from the stored block at offset %d: %s", apiNames[api], len(data), firstDiff(data, b.raw), b.desc()), b})
	}
	if trusted != b.trusted {
		divs = append(divs, div{"get/wrong-trusted-flag/" + st, fmt.Sprintf("%s returned trusted=%v, model %v: %s", apiNames[api], trusted, b.trusted, b.desc()), b})
	}
	return
}

func (h *hist) length(b *mblock, decode bool) (divs []div) {
	var l uint32
	var err error
	h.log("length #%d decode=%v (%s)", b.id, decode, b.state())
	if !h.safe("length", func() { l, err = h.db.BlockLength(b.u, decode) }) {
		return
	}
	h.c.inc("lengths")
	st := b.state()
	switch st {
	case "unknown":
		h.c.inc("judged")
		if err == nil {
			divs = append(divs, div{"length/answer-for-a-hash-never-stored", fmt.Sprintf("BlockLength returned %d for a hash that was never stored", l), b})
		}
		return
	case "invalid":
		return
	case "queued":
		h.c.inc("length_of_queued_block(unspecified)")
		if l == 0 {
			h.c.inc("length_of_queued_block_is_0")
		}
		return
	}
	if err != nil {
		if h.outOfRetention(b.datIdx) || !b.hasRec {
			h.c.inc("length_error_out_of_retention_or_unknown_file")
			return
		}
		divs = append(divs, div{"length/error-within-retention", fmt.Sprintf("BlockLength: %v for %s", err, b.desc()), b})
		return
	}
	h.c.inc("judged")
	h.c.dist("cases", h.c.variant, "length", decode, st, b.szc, h.opts.Compress)
	if l == uint32(len(b.raw)) {
		return
	}
	if !decode && b.hasRec && l == b.recLen {
		h.c.inc("length_nodecode_returns_stored_length")
		return
	}
	if st == "written" && (l == 0 || (!decode && !b.hasRec)) {
		// The property promises sizes only through the index after a restart. For a block written in
		// this session the store has not learnt the original length yet (observed: 0, nil while the
		// block is still cached); counted, not judged.
		h.c.inc("length_of_block_written_this_session_unknown(unspecified)")
		return
	}
	divs = append(divs, div{"length/wrong/" + st, fmt.Sprintf("BlockLength(decode=%v) = %d for %s", decode, l, b.desc()), b})
	return
}

// getAll reads every live block back (after a reopen: everything comes from disk).
func (h *hist) getAll() (divs []div) {
	budget := 160 << 20
	for i := len(h.blocks) - 1; i >= 0 && !h.dead; i-- {
		b := h.blocks[i]
		if !b.live() {
			continue
		}
		if budget -= len(b.raw); budget < 0 {
			break
		}
		divs = append(divs, h.get(b, h.r.Intn(3))...)
		if len(divs) > 8 {
			break
		}
	}
	return
}

// ---------------------------------------------------------------------------------------------
// mutating ops

func (h *hist) newBlock(size int) *mblock {
	fam := h.r.Intn(len(famNames))
	structured := h.r.Intn(3) > 0
	raw, ntx := makeBlock(h.r, size, fam, structured)
	b := &mblock{id: len(h.blocks), raw: raw, fam: famNames[fam], szc: sizeClass(len(raw)), txcount: ntx}
	b.hash = sha256d(raw[:80])
	b.u = btc.NewUint256(b.hash[:])
	b.viaStruct = h.r.Intn(3) == 0
	if b.viaStruct && h.r.Bool() {
		b.txcount = uint32(h.r.Intn(100000)) // the store must keep the number it was given
	}
	h.height += uint32(h.r.Intn(3))
	if h.r.Intn(20) == 0 {
		h.height = uint32(h.r.U32() >> uint(h.r.Intn(32)))
	}
	b.height = h.height
	h.blocks = append(h.blocks, b)
	h.byHash[b.hash] = b
	h.bytes += len(raw)
	return b
}

func (h *hist) pickSize() int {
	x := h.r.Intn(100)
	if h.bytes > 90<<20 {
		x = x % 60
	}
	switch {
	case x < 8:
		return 81
	case x < 35:
		return 82 + h.r.Intn(120)
	case x < 62:
		return 200 + h.r.Intn(4800)
	case x < 72:
		// around the snappy block size
		return 81 + 65536 + h.r.Intn(40) - 20
	case x < 90 || h.scale < 1:
		return 5000 + h.r.Intn(145000)
	case x < 98 || h.scale < 2:
		return 150000 + h.r.Intn(1050000)
	default:
		if h.r.Intn(4) == 0 {
			return []int{4000000, 4194304, 3999999}[h.r.Intn(3)]
		}
		return 1200000 + h.r.Intn(2994305)
	}
}

func (h *hist) addBlock(b *mblock, trustedAtAdd bool) {
	var bl *btc.Block
	handed := append([]byte(nil), b.raw...)
	if b.viaStruct {
		bl = &btc.Block{Raw: handed, Hash: btc.NewUint256(b.hash[:]), TxCount: int(b.txcount)}
	} else {
		var err error
		bl, err = btc.NewBlock(handed)
		if err != nil || bl == nil {
			h.c.inc("generator_block_refused_by_NewBlock")
			bl = &btc.Block{Raw: handed, Hash: btc.NewUint256(b.hash[:]), TxCount: int(b.txcount)}
		}
	}
	if trustedAtAdd {
		bl.Trusted.Set()
	}
	dup := b.added
	rawHex := ""
	if len(b.raw) <= 100 && !dup {
		rawHex = " raw=" + vlib.Hex(b.raw)
	}
	h.log("add #%d len=%d fam=%s h=%d txs=%d trusted=%v dup=%v struct=%v%s", b.id, len(b.raw), b.fam, b.height, b.txcount, trustedAtAdd, dup, b.viaStruct, rawHex)
	if !h.safe("add", func() { h.db.BlockAdd(b.height, bl) }) {
		return
	}
	h.c.inc("adds")
	if dup {
		h.c.inc("adds_duplicate")
	} else {
		b.added = true
		b.session = h.session
		h.queued = append(h.queued, b)
		h.c.dist("cases", h.c.variant, "add", b.szc, b.fam, b.viaStruct, h.opts.Compress)
		h.c.dist("content", b.fam, b.szc)
	}
	if trustedAtAdd {
		b.trusted = true
	}
	if n := h.statRecs(); n != h.nrec && !h.tainted {
		// the store flushed inside BlockAdd (1024 queued blocks or 16 MiB queued data)
		h.c.inc("flush_inside_blockadd")
		h.log("  (flush inside BlockAdd: %d -> %d records)", h.nrec, n)
		h.nrec = n
		for _, q := range h.queued {
			q.written = true
		}
		h.queued = nil
	}
}

func (h *hist) idle() {
	h.log("idle")
	if !h.safe("idle", func() { h.db.Idle() }) {
		return
	}
	h.c.inc("idles")
	for _, q := range h.queued {
		q.written = true
	}
	h.queued = nil
	n := h.statRecs()
	if n > h.nrec {
		// count roll-overs cheaply: look at the data file index of the last record
		recs, _ := h.readIndex()
		if len(recs) > 0 && h.maxIdxEver > 0 {
			h.c.inc("idle_with_rolled_over_store")
		}
	}
	h.nrec = n
}

func (h *hist) markTrusted(b *mblock) {
	h.log("trusted #%d (%s)", b.id, b.state())
	if !h.safe("trusted", func() { h.db.BlockTrusted(b.hash[:]) }) {
		return
	}
	if b.added && !b.invalid {
		b.trusted = true
		h.c.inc("trusted_" + b.state())
	}
}

func (h *hist) markInvalid(b *mblock) {
	st := b.state()
	h.log("invalid #%d (%s)", b.id, st)
	if !h.safe("invalid", func() { h.db.BlockInvalid(b.hash[:]) }) {
		return
	}
	if b.added && !b.invalid {
		b.invalid = true
		if st == "queued" {
			h.c.inc("invalid_queued")
		} else {
			h.c.inc("invalid_written")
		}
	}
}

// ---------------------------------------------------------------------------------------------
// readers (the client's network threads: BlockGetExt / BlockGet while the main thread adds)

type rblk struct {
	u      *btc.Uint256
	raw    []byte
	mayInv bool
	pre    bool  // stored before this session
	pos    int32 // position among this session's new blocks
	id     int
}

type rerr struct {
	id  int
	err string
	api int
}

type readers struct {
	view     []rblk
	added    atomic.Int32 // number of this session's new blocks already handed to BlockAdd
	stop     atomic.Bool
	wg       sync.WaitGroup
	mu       sync.Mutex
	errs     []rerr
	wrong    []string
	gets     atomic.Int64
	lens     atomic.Int64
	panicked atomic.Bool
}

func (h *hist) startReaders(n int, sessionBlocks []*mblock) *readers {
	rd := &readers{}
	for _, b := range h.blocks {
		if b.live() && b.session != 0 && !containsBlk(sessionBlocks, b) {
			rd.view = append(rd.view, rblk{u: b.u, raw: b.raw, mayInv: b.mayInv, pre: true, id: b.id})
		}
	}
	for i, b := range sessionBlocks {
		rd.view = append(rd.view, rblk{u: b.u, raw: b.raw, mayInv: b.mayInv, pos: int32(i), id: b.id})
	}
	if len(rd.view) == 0 {
		return nil
	}
	db := h.db
	for g := 0; g < n; g++ {
		rr := h.r.Fork(fmt.Sprintf("reader%d/%d", h.session, g))
		rd.wg.Add(1)
		go func() {
			defer rd.wg.Done()
			defer func() {
				if x := recover(); x != nil {
					rd.panicked.Store(true)
					msg := fmt.Sprintf("PANIC in reader: %v\n%s", x, vlib.Tail(debug.Stack(), 1200))
					readerPanic.Store(&msg)
					rd.mu.Lock()
					rd.wrong = append(rd.wrong, fmt.Sprintf("PANIC in reader: %v\n%s", x, vlib.Tail(debug.Stack(), 1200)))
					rd.mu.Unlock()
				}
			}()
			var myErrs []rerr
			var myWrong []string
			cnt := int64(0)
			for !rd.stop.Load() || cnt < 150 {
				v := &rd.view[rr.Intn(len(rd.view))]
				if rr.Intn(3) == 0 && len(rd.view) > 8 { // bias to the most recent blocks
					v = &rd.view[len(rd.view)-1-rr.Intn(8)]
				}
				addedBefore := rd.added.Load()
				switch k := rr.Intn(10); {
				case k < 8:
					api := []int{1, 1, 1, 0, 2}[rr.Intn(5)]
					data, _, _, err := dbGet(db, v.u, api)
					cnt++
					if err != nil {
						if v.pre || v.pos < addedBefore {
							myErrs = append(myErrs, rerr{v.id, err.Error(), api})
						}
					} else if !v.mayInv && !bytes.Equal(data, v.raw) {
						myWrong = append(myWrong, fmt.Sprintf("%s returned %d bytes differing from stored block #%d at offset %d", apiNames[api], len(data), v.id, firstDiff(data, v.raw)))
					}
				default:
					// (BlockLength is not called here: no thread of the client calls it, and it reads
					// record fields without the mutex; the main thread exercises it sequentially)
					db.GetStats()
					rd.lens.Add(1)
				}
			}
			rd.gets.Add(cnt)
			rd.mu.Lock()
			rd.errs = append(rd.errs, myErrs...)
			rd.wrong = append(rd.wrong, myWrong...)
			rd.mu.Unlock()
		}()
	}
	return rd
}

// waitReaders waits for the reader goroutines under a generous watchdog (2 minutes; 5 s once a
// panic happened in the mutating thread or in a reader, which may have left the store's mutex
// locked for ever). false = abandoned.
func waitReaders(rd *readers, afterPanic bool) bool {
	done := make(chan struct{})
	go func() { rd.wg.Wait(); close(done) }()
	start := time.Now()
	var panicSeen time.Time
	for {
		select {
		case <-done:
			return true
		case <-time.After(50 * time.Millisecond):
		}
		if (afterPanic || rd.panicked.Load()) && panicSeen.IsZero() {
			panicSeen = time.Now()
		}
		if !panicSeen.IsZero() && time.Since(panicSeen) > 5*time.Second {
			return false
		}
		if time.Since(start) > 2*time.Minute {
			return false
		}
	}
}

func containsBlk(l []*mblock, b *mblock) bool {
	for _, x := range l {
		if x == b {
			return true
		}
	}
	return false
}

func (h *hist) stopReaders(rd *readers) (divs []div) {
	if rd == nil {
		return
	}
	rd.stop.Store(true)
	if !waitReaders(rd, h.panicked) {
		rd.mu.Lock()
		for _, w := range rd.wrong {
			if strings.HasPrefix(w, "PANIC") {
				divs = append(divs, div{"panic/reader", w, nil})
			}
		}
		rd.mu.Unlock()
		if !h.panicked && len(divs) == 0 {
			h.c.mu.Lock()
			h.c.inconcl = append(h.c.inconcl, fmt.Sprintf("reader threads of history %d (seed %d) did not finish within the watchdog", h.hi, h.seed))
			h.c.mu.Unlock()
		}
		h.dead = true
		h.panicked = true // abandoned readers may still hold the store
		return
	}
	h.c.add("reader_gets_judged", rd.gets.Load())
	h.c.add("judged", rd.gets.Load())
	h.c.add("reader_getstats", rd.lens.Load())
	h.c.dist("cases", h.c.variant, "reader-get", h.opts.Compress, h.opts.Cache == 1, h.opts.MaxFile != 0)
	for _, w := range rd.wrong {
		cls := "reader/wrong-bytes"
		if strings.HasPrefix(w, "PANIC") {
			cls = "panic/reader"
		}
		divs = append(divs, div{cls, w, nil})
	}
	if len(rd.errs) > 0 {
		recs, _ := h.readIndex()
		idxOf := map[[32]byte]uint32{}
		has := map[[32]byte]bool{}
		for _, rc := range recs {
			idxOf[rc.hash], has[rc.hash] = rc.datIdx, true
		}
		for _, e := range rd.errs {
			b := h.blocks[e.id]
			switch {
			case b.mayInv && b.invalid:
				h.c.inc("reader_error_on_invalidated_block")
			case has[b.hash] && h.outOfRetention(idxOf[b.hash]):
				h.c.inc("reader_absent_out_of_retention")
			default:
				divs = append(divs, div{"reader/get-error-for-stored-block", fmt.Sprintf("reader thread: %s: %q for %s", apiNames[e.api], e.err, b.desc()), b})
			}
		}
	}
	return
}

// ---------------------------------------------------------------------------------------------
// sessions

// finalize: close, re-parse the index, reopen, compare the walk, read everything back, close.
// explain != nil: divergences that concern only these blocks are attributed to knownClass.
func (h *hist) finalize(explain map[*mblock]bool, knownClass, knownWhat string) {
	var divs []div
	if h.db != nil {
		h.close()
	}
	if h.dead {
		return
	}
	divs = append(divs, h.checkIndex(true)...)
	if len(divs) == 0 || explain != nil {
		divs = append(divs, h.open()...)
		if h.db != nil && !h.dead {
			if len(divs) == 0 || explain != nil {
				divs = append(divs, h.getAll()...)
			}
			h.close()
			if len(divs) == 0 {
				divs = append(divs, h.checkIndex(true)...)
			}
		}
	}
	if explain == nil {
		h.judgeStrict(divs)
		return
	}
	var unexpl []div
	var expl []string
	for _, d := range divs {
		if d.b != nil && explain[d.b] {
			expl = append(expl, d.class+": "+d.what)
		} else {
			unexpl = append(unexpl, d)
		}
	}
	h.judgeStrict(unexpl)
	if len(expl) > 0 {
		h.c.fail(knownClass, knownWhat, h.witness(map[string]interface{}{"divergences": expl}))
		h.c.inc("known_shape_divergence_confirmed")
	} else {
		h.c.inc("known_shape_activated_without_divergence")
	}
	h.dead = true
}

// Known defect F1 (listed in /verif/known/C16.json): LoadBlockIndex `continue`s over a record whose
// INVALID flag is set before it reaches `db.maxidxfilepos += 136`. After a reopen of an index that
// holds K invalid records, (a) every valid record behind an invalid one has an ipos that is 136*k
// too small, so BlockTrusted/BlockInvalid write their flag into an earlier record, and (b) the
// append position is 136*K short, so the next record overwrites the one in slot "number of valid
// records". Proposed fix: add `db.maxidxfilepos += 136` before that `continue`.
// A history is attributed to these classes only if the index parsed at the preceding close really has
// a valid record behind an invalid one, the activating operation (append / flag update of a block
// with an invalid record before it) was performed, and the divergence concerns exactly the block(s)
// the defect predicts; everything else keeps its own class. Invalid records at the very end of the
// file only cause dead records to be overwritten: that is treated as correct and judged strictly.
const (
	classAppend = "reopen-after-invalid-record/append-overwrites-live-record"
	classFlag   = "reopen-after-invalid-record/flag-update-hits-another-record"
)

// slotOf returns the slot (record number) of b in the index as parsed at the last close,
// the number of invalid records before it, and the block living at a given slot.
func (h *hist) slotOf(b *mblock) (slot, deadBefore int) {
	for i, rc := range h.slots {
		if rc.hash == b.hash && !rc.invalid {
			return i, deadBefore
		}
		if rc.invalid {
			deadBefore++
		}
	}
	return -1, 0
}
func (h *hist) liveAtSlot(i int) *mblock {
	if i < 0 || i >= len(h.slots) || h.slots[i].invalid {
		return nil
	}
	if b := h.byHash[h.slots[i].hash]; b != nil && b.live() {
		return b
	}
	return nil
}

func (h *hist) pickLive(filter func(*mblock) bool) *mblock {
	var c []*mblock
	for _, b := range h.blocks {
		if b.live() && (filter == nil || filter(b)) {
			c = append(c, b)
		}
	}
	if len(c) == 0 {
		return nil
	}
	// bias: recent, oldest, uniform
	switch h.r.Intn(4) {
	case 0:
		return c[len(c)-1-h.r.Intn(min(len(c), 4))]
	case 1:
		return c[h.r.Intn(min(len(c), 6))]
	}
	return c[h.r.Intn(len(c))]
}

// session runs nOps operations in the currently open store. It returns false when the history ended.
func (h *hist) session_(nOps int, readOnly bool) {
	// blocks of this session are generated up front (readers know them)
	nNew := 0
	if !readOnly {
		nNew = nOps*2/5 + 1
	}
	var fresh []*mblock
	for i := 0; i < nNew; i++ {
		b := h.newBlock(h.pickSize())
		b.mayInv = h.r.Intn(6) == 0
		fresh = append(fresh, b)
	}
	for _, b := range h.blocks {
		if b.live() && b.session != 0 && !containsBlk(fresh, b) {
			b.mayInv = !b.trusted && h.r.Intn(8) == 0
		}
	}
	var rd *readers
	if h.nread > 0 {
		rd = h.startReaders(h.nread, fresh)
	}
	nextFresh := 0
	stopRd := func() bool {
		d := h.stopReaders(rd)
		rd = nil
		return h.judgeStrict(d)
	}

	for op := 0; op < nOps && !h.dead; op++ {
		k := h.r.Intn(100)
		if readOnly {
			k = 40 + k%38 // get / length / unknown only
		}
		switch {
		case k < 34: // add
			if nextFresh >= len(fresh) {
				continue
			}
			b := fresh[nextFresh]
			nextFresh++
			if h.tainted { // only the bug-shape family gets here (strict sessions are read-only when tainted)
				nValid := 0
				for _, rc := range h.slots {
					if !rc.invalid {
						nValid++
					}
				}
				victim := h.liveAtSlot(nValid)
				h.addBlock(b, !b.mayInv && h.r.Intn(4) == 0)
				if rd != nil {
					rd.added.Store(int32(nextFresh))
				}
				if !stopRd() {
					return
				}
				ex := map[*mblock]bool{}
				if victim != nil {
					ex[victim] = true
				}
				h.finalize(ex, classAppend, "after a reopen of an index that holds an invalid record followed by valid ones, the next appended record overwrites an existing valid record (LoadBlockIndex does not advance maxidxfilepos over invalid records)")
				return
			}
			h.addBlock(b, !b.mayInv && h.r.Intn(4) == 0)
			if rd != nil {
				rd.added.Store(int32(nextFresh))
			}
		case k < 37: // duplicate add (possibly upgrading to trusted)
			b := h.pickLive(func(b *mblock) bool { return !b.mayInv || b.trusted })
			if b == nil {
				continue
			}
			up := h.r.Bool()
			if up && !b.trusted && h.flagOpActivates(b) {
				h.addBlock(b, true)
				h.finishFlagActivation(b, stopRd)
				return
			}
			h.addBlock(b, up)
		case k < 62: // get
			var b *mblock
			if h.r.Intn(12) == 0 {
				b = h.pickAny(func(b *mblock) bool { return b.invalid })
			}
			if b == nil {
				b = h.pickLive(nil)
			}
			if b == nil {
				continue
			}
			h.judgeStrict(h.get(b, h.r.Intn(3)))
		case k < 65: // get / length of a hash never stored
			fake := &mblock{id: -1, raw: nil}
			copy(fake.hash[:], h.r.Bytes(32))
			fake.u = btc.NewUint256(fake.hash[:])
			if h.r.Bool() {
				h.judgeStrict(h.get(fake, h.r.Intn(3)))
			} else {
				h.judgeStrict(h.length(fake, h.r.Bool()))
			}
		case k < 72: // length
			if b := h.pickLive(nil); b != nil {
				h.judgeStrict(h.length(b, h.r.Intn(4) != 0))
			}
		case k < 78:
			h.safe("stats", func() { h.db.GetStats() })
		case k < 85: // trusted
			b := h.pickLive(func(b *mblock) bool { return !b.trusted && !b.mayInv })
			if b == nil {
				continue
			}
			if h.flagOpActivates(b) {
				h.markTrusted(b)
				h.finishFlagActivation(b, stopRd)
				return
			}
			h.markTrusted(b)
		case k < 91: // invalid
			if h.r.Intn(10) == 0 {
				// a second BlockInvalid for a block that is already invalid must be harmless
				if b := h.pickAny(func(b *mblock) bool { return b.invalid }); b != nil && !h.tainted {
					h.markInvalid(b)
					h.c.inc("invalid_repeated")
				}
				continue
			}
			wantQueued := h.r.Bool()
			allowWritten := h.family == "bugshape" || h.lastRW
			b := h.pickLive(func(b *mblock) bool {
				if b.trusted || !b.mayInv {
					return false
				}
				if b.state() == "queued" {
					return wantQueued || !allowWritten
				}
				return allowWritten && !wantQueued
			})
			if b == nil {
				continue
			}
			if h.flagOpActivates(b) {
				h.markInvalid(b)
				h.finishFlagActivation(b, stopRd)
				return
			}
			h.markInvalid(b)
		default: // idle
			h.idle()
		}
	}
	if h.dead {
		if rd != nil {
			rd.stop.Store(true)
			if !waitReaders(rd, h.panicked) {
				h.panicked = true
			}
		}
		return
	}
	if !stopRd() {
		return
	}
	// strict family: a written block may be invalidated right before a close only when it is the
	// last record of the index (an invalid record with nothing after it does not trigger the known defect)
	if !readOnly && h.family == "strict" && !h.lastRW && !h.tainted && h.r.Intn(3) == 0 {
		h.idle()
		var last *mblock
		for _, b := range h.blocks {
			if b.added && b.written && !(b.invalid && !b.hasRec) {
				last = b
			}
		}
		// the last written record belongs to the last block that reached the disk; it is `last` only if
		// no block after it was written and invalidated, which the loop above accounts for
		if last != nil && last.live() && !last.trusted && h.lastWrittenIs(last) {
			h.markInvalid(last)
			h.c.inc("invalid_trailing_record_before_reopen")
		}
	}
}

// lastWrittenIs confirms from the index file itself that b owns the last record.
func (h *hist) lastWrittenIs(b *mblock) bool {
	recs, _ := h.readIndex()
	return len(recs) > 0 && recs[len(recs)-1].hash == b.hash && !recs[len(recs)-1].invalid
}

func (h *hist) pickAny(filter func(*mblock) bool) *mblock {
	var c []*mblock
	for _, b := range h.blocks {
		if b.added && filter(b) {
			c = append(c, b)
		}
	}
	if len(c) == 0 {
		return nil
	}
	return c[h.r.Intn(len(c))]
}

// flagOpActivates: in a session opened on an index with an invalid record before b's record, a
// flag update of b is written to another record (known defect).
func (h *hist) flagOpActivates(b *mblock) bool {
	if !h.tainted || !b.reopened {
		return false
	}
	slot, deadBefore := h.slotOf(b)
	return slot >= 0 && deadBefore > 0
}

func (h *hist) finishFlagActivation(b *mblock, stopRd func() bool) {
	if !stopRd() {
		return
	}
	slot, deadBefore := h.slotOf(b)
	ex := map[*mblock]bool{b: true}
	if y := h.liveAtSlot(slot - deadBefore); y != nil {
		ex[y] = true
	}
	h.finalize(ex, classFlag, "after a reopen of an index that holds an invalid record followed by valid ones, BlockTrusted/BlockInvalid of a later block writes its flag into an earlier record (record positions are 136 bytes short per skipped invalid record)")
}

func runHistory(c *ctx, root *vlib.Rand, hi int, ops, nread, scale int, profile string) {
	h := &hist{c: c, hi: hi, byHash: map[[32]byte]*mblock{}, profile: profile, scale: scale, nread: nread}
	h.seed = root.U64()
	curHist.Store(h)
	h.r = vlib.NewRand(h.seed)
	h.dir = filepath.Join(c.tmp, fmt.Sprintf("h%d", hi))
	os.MkdirAll(h.dir, 0o755)
	defer os.RemoveAll(h.dir)
	r := h.r
	h.opts = hopts{
		Compress: r.Bool(),
		Cache:    []int{1, 1, 2, 3, 5, 20, 0}[r.Intn(7)],
		MaxFile:  []uint64{0, 0, 300, 2000, 20000, 300000, 3000000}[r.Intn(7)],
		Keep:     []uint32{0, 1, 2, 3}[r.Intn(4)],
		Backup:   r.Bool(),
	}
	h.family = "strict"
	if r.Intn(10) < 3 {
		h.family = "bugshape"
	}
	h.height = uint32(r.Intn(900000))
	if profile == "normal" {
		c.jrnl("history %d seed=%d profile=%s family=%s opts=%+v", hi, h.seed, profile, h.family, h.opts)
	} else {
		c.jrnl("history %d seed=%d profile=%s", hi, h.seed, profile)
	}

	switch profile {
	case "directed":
		h.directed()
	case "burst-small":
		h.burst(1100+r.Intn(100), func() int { return 81 + r.Intn(40) })
	case "burst-big":
		h.opts.MaxFile = []uint64{0, 3000000, 20000000}[r.Intn(3)]
		h.burst(6, func() int { return 3300000 + r.Intn(894305) })
	default:
		nSess := 2 + r.Intn(5)
		if !h.judgeStrict(h.open()) {
			break
		}
		for s := 0; s < nSess && !h.dead; s++ {
			h.lastRW = s == nSess-1
			readOnly := h.tainted && h.family == "strict"
			n := ops / nSess
			if readOnly {
				n = n/3 + 1
			}
			h.session_(n, readOnly)
			if h.dead {
				break
			}
			if readOnly {
				h.c.inc("strict_history_read_only_after_invalid_record")
				break
			}
			if s == nSess-1 {
				break
			}
			// close / reopen (options that a user may change between runs do change)
			h.close()
			if h.dead || !h.judgeStrict(h.checkIndex(true)) {
				break
			}
			if r.Intn(4) == 0 {
				h.opts.Compress = !h.opts.Compress
				h.c.inc("reopen_with_compression_toggled")
			}
			if r.Intn(4) == 0 {
				h.opts.Cache = []int{1, 2, 3, 5, 20, 0}[r.Intn(6)]
			}
			if r.Intn(6) == 0 {
				h.opts.Backup = !h.opts.Backup
			}
			divs := h.open()
			if len(divs) == 0 && !h.dead && r.Intn(2) == 0 {
				divs = h.getAll()
			}
			if !h.judgeStrict(divs) {
				break
			}
		}
		if !h.dead {
			h.finalize(nil, "", "")
		}
	}
	if h.db != nil && !h.panicked {
		func() {
			defer func() { recover() }()
			h.db.Close()
		}()
	}
	if h.maxIdxEver > 0 {
		c.add("rollovers_observed", int64(h.maxIdxEver))
	}
	c.inc("histories")
	c.inc("histories_" + h.family)
	if !h.dead {
		c.inc("histories_completed_clean")
	}
	c.sample(map[string]interface{}{"history": hi, "seed": h.seed, "options": h.opts, "family": h.family, "profile": profile, "variant": c.variant,
		"blocks": len(h.blocks), "bytes": h.bytes, "sessions": h.session, "ops": len(h.trace), "highest_data_file": h.maxIdxEver})
}

// directed: the probe of DESIGN §6 — four blocks, the second marked invalid after it was written,
// close, reopen, a fifth block added.
func (h *hist) directed() {
	h.family = "bugshape"
	h.opts = hopts{Compress: h.r.Bool(), Cache: 5}
	if !h.judgeStrict(h.open()) {
		return
	}
	var bl []*mblock
	for i := 0; i < 5; i++ {
		bl = append(bl, h.newBlock(81))
	}
	for i := 0; i < 4; i++ {
		h.addBlock(bl[i], false)
	}
	h.idle()
	h.markInvalid(bl[1])
	for i := 0; i < 4; i++ {
		h.judgeStrict(h.get(bl[i], 0))
	}
	h.close()
	if h.dead || !h.judgeStrict(h.checkIndex(true)) {
		return
	}
	if !h.judgeStrict(h.open()) || !h.judgeStrict(h.getAll()) {
		return
	}
	victim := h.liveAtSlot(3)
	h.addBlock(bl[4], false)
	ex := map[*mblock]bool{}
	if victim != nil {
		ex[victim] = true
	}
	h.finalize(ex, classAppend, "after a reopen of an index that holds an invalid record followed by valid ones, the next appended record overwrites an existing valid record (LoadBlockIndex does not advance maxidxfilepos over invalid records)")
}

// burst: many adds without Idle so that BlockAdd itself has to flush (1024 blocks / 16 MiB).
func (h *hist) burst(n int, size func() int) {
	h.family = "strict"
	if !h.judgeStrict(h.open()) {
		return
	}
	for i := 0; i < n && !h.dead; i++ {
		b := h.newBlock(size())
		h.addBlock(b, h.r.Intn(5) == 0)
		if h.r.Intn(8) == 0 {
			if g := h.pickLive(nil); g != nil {
				h.judgeStrict(h.get(g, h.r.Intn(3)))
			}
		}
		if h.r.Intn(40) == 0 {
			if g := h.pickLive(func(b *mblock) bool { return !b.trusted && b.state() == "queued" }); g != nil {
				h.markInvalid(g)
			}
		}
		if h.r.Intn(30) == 0 {
			if g := h.pickLive(func(b *mblock) bool { return !b.trusted }); g != nil {
				h.markTrusted(g)
			}
		}
	}
	for i := 0; i < 30 && !h.dead; i++ {
		if g := h.pickLive(nil); g != nil {
			h.judgeStrict(h.get(g, h.r.Intn(3)))
			h.judgeStrict(h.length(g, true))
		}
	}
	if !h.dead {
		h.finalize(nil, "", "")
	}
}

func childHist(args []string) {
	c := newCtx()
	seed, _ := strconv.ParseUint(args[0], 10, 64)
	n, _ := strconv.Atoi(args[1])
	ops, _ := strconv.Atoi(args[2])
	nread, _ := strconv.Atoi(args[3])
	scale, _ := strconv.Atoi(args[4])
	profile := args[5]
	root := vlib.NewRand(seed)
	c.write(false)
	go panicWatch(c)
	for i := 0; i < n; i++ {
		readerPanic.Store(nil)
		runHistory(c, root, i, ops, nread, scale, profile)
		c.write(false)
	}
	c.write(true)
}
