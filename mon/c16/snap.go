package main

// Part 2: lib/others/snappy alone. Source and destination buffers live in mmap'ed arenas between
// PROT_NONE guard pages (an access of the assembly routines beyond the buffer on the guarded side
// kills the child: SIGSEGV => witness = last journaled case) and canary bytes on the other side.

import (
	"bytes"
	"fmt"
	"os"
	"runtime/debug"
	"strconv"
	"syscall"

	"github.com/piotrnar/gocoin/lib/others/snappy"
	"verif/lib/vlib"
	"verif/ref/snappyref"
)

const canaryWin = 1024

type arena struct {
	mem  []byte
	data []byte
}

func newArena(n int) *arena {
	page := os.Getpagesize()
	sz := (n + 2*canaryWin + page - 1) / page * page
	mem, err := syscall.Mmap(-1, 0, sz+2*page, syscall.PROT_READ|syscall.PROT_WRITE, syscall.MAP_ANON|syscall.MAP_PRIVATE)
	if err != nil {
		panic("mmap: " + err.Error())
	}
	if syscall.Mprotect(mem[:page], syscall.PROT_NONE) != nil || syscall.Mprotect(mem[page+sz:], syscall.PROT_NONE) != nil {
		panic("mprotect")
	}
	return &arena{mem: mem, data: mem[page : page+sz]}
}

func canary(i int, salt byte) byte { return byte(i*131+17) ^ salt }

// place returns a buffer with len == cap == n that ends at the rear guard page (atEnd) or starts
// right after the front guard page; the canaryWin bytes on its open side are filled with a pattern.
func (a *arena) place(n int, atEnd bool, salt byte) (buf []byte, chk func() string) {
	if n+canaryWin > len(a.data) {
		panic("arena too small")
	}
	var win []byte
	if atEnd {
		s := len(a.data) - n
		buf = a.data[s:len(a.data):len(a.data)]
		win = a.data[s-canaryWin : s]
	} else {
		buf = a.data[0:n:n]
		win = a.data[n : n+canaryWin]
	}
	for i := range win {
		win[i] = canary(i, salt)
	}
	side := "after"
	if atEnd {
		side = "before"
	}
	return buf, func() string {
		for i := range win {
			if win[i] != canary(i, salt) {
				d := i
				if atEnd {
					d = len(win) - i
				}
				return fmt.Sprintf("canary %s the buffer damaged at distance %d", side, d)
			}
		}
		return ""
	}
}

var rtSizes = []int{0, 1, 2, 3, 4, 5, 6, 7, 8, 9, 10, 11, 12, 13, 14, 15, 16, 17, 18, 19, 20, 31, 32, 33, 59, 60, 61, 62, 63, 64, 65, 66, 255, 256, 257,
	1023, 1024, 1025, 2047, 2048, 2049, 4095, 4096, 4097, 16383, 16384, 16385, 65519, 65520, 65521, 65534, 65535, 65536, 65537, 65538, 65551, 65552, 65553,
	131071, 131072, 131073, 131088, 196608, 262144, 262145}

type snapChild struct {
	c             *ctx
	src, dst, dec *arena
	maxLen        int
}

func (s *snapChild) fail(class, what string, w map[string]interface{}) {
	s.c.fail(class, what, w)
}

func hexHead(b []byte) string {
	if len(b) > 300 {
		return vlib.Hex(b[:300]) + fmt.Sprintf("…(%d bytes)", len(b))
	}
	return vlib.Hex(b)
}

func (s *snapChild) roundTrip(i int, root *vlib.Rand) {
	r := root.Fork(fmt.Sprint("rt", i))
	n := rtSizes[r.Intn(len(rtSizes))]
	switch r.Intn(10) {
	case 0, 1, 2:
		n = r.Intn(3000)
	case 3, 4:
		n = r.Intn(300000)
	case 5:
		n += r.Intn(33) - 16
		if n < 0 {
			n = 0
		}
	case 6:
		if r.Intn(6) == 0 {
			n = 1000000 + r.Intn(s.maxLen-1000000)
		}
	}
	fam := r.Intn(len(famNames))
	srcEnd, dstEnd, mode := r.Bool(), r.Bool(), r.Intn(4)
	s.c.jrnl("roundtrip case=%d n=%d fam=%s srcAtEnd=%v dstAtEnd=%v dstMode=%d", i, n, famNames[fam], srcEnd, dstEnd, mode)
	x := genContent(r, n, fam)
	w := map[string]interface{}{"case": i, "kind": "roundtrip", "n": n, "family": famNames[fam], "src_at_guard_end": srcEnd, "dst_at_guard_end": dstEnd, "dst_mode": mode, "variant": s.c.variant, "input_head": hexHead(x)}
	defer func() {
		if p := recover(); p != nil {
			w["stack"] = vlib.Tail(debug.Stack(), 1500)
			s.fail("snappy/panic/roundtrip", fmt.Sprintf("snappy panicked on a %d-byte input (%s): %v", n, famNames[fam], p), w)
		}
	}()
	srcBuf, chkSrc := s.src.place(n, srcEnd, 0x5a)
	copy(srcBuf, x)
	maxEnc := snappy.MaxEncodedLen(n)
	var dst []byte
	chkDst := func() string { return "" }
	switch mode {
	case 0:
	case 1, 2:
		dst, chkDst = s.dst.place(maxEnc, dstEnd, 0xa5)
	default:
		dst, chkDst = s.dst.place(maxEnc+r.Intn(100), dstEnd, 0xa5)
	}
	enc := snappy.Encode(dst, srcBuf)
	s.c.inc("snappy_roundtrips")
	s.c.inc("judged")
	s.c.dist("cases", s.c.variant, "snappy-rt", famNames[fam], sizeClass(n+81), mode, srcEnd, dstEnd)
	s.c.dist("content", famNames[fam], sizeClass(n+81))
	if m := chkSrc(); m != "" {
		s.fail("snappy/encode-writes-outside-buffers", "Encode: source "+m, w)
	}
	if m := chkDst(); m != "" {
		s.fail("snappy/encode-writes-outside-buffers", "Encode: destination "+m, w)
	}
	if !bytes.Equal(srcBuf, x) {
		s.fail("snappy/encode-modifies-source", "Encode changed its input", w)
	}
	if len(enc) > maxEnc {
		s.fail("snappy/encode-exceeds-MaxEncodedLen", fmt.Sprintf("Encode produced %d bytes, MaxEncodedLen=%d", len(enc), maxEnc), w)
	}
	if len(enc) < n/2 {
		s.c.inc("snappy_inputs_compressed_below_half")
	}
	ref, err := snappyref.Decode(enc, int64(s.maxLen)+1024)
	if err != nil || !bytes.Equal(ref, x) {
		w["encoded_head"] = hexHead(enc)
		s.fail("snappy/encode-output-not-the-input-per-reference-decoder/"+famNames[fam], fmt.Sprintf("reference decoder: err=%v, first difference at %d of %d", err, firstDiff(ref, x), n), w)
		return
	}
	if dl, err := snappy.DecodedLen(enc); err != nil || dl != n {
		s.fail("snappy/decodedlen-wrong", fmt.Sprintf("DecodedLen=%d err=%v for a %d-byte input", dl, err, n), w)
	}
	// decode with the stream and the destination between guards
	encCopy := append([]byte(nil), enc...)
	encEnd, ddEnd := r.Bool(), r.Bool()
	encBuf, chkEnc := s.src.place(len(encCopy), encEnd, 0x3c)
	copy(encBuf, encCopy)
	var dd []byte
	chkDD := func() string { return "" }
	dmode := r.Intn(3)
	switch dmode {
	case 0:
	case 1:
		dd, chkDD = s.dec.place(n, ddEnd, 0xc3)
	default:
		dd, chkDD = s.dec.place(n+r.Intn(64), ddEnd, 0xc3)
	}
	w["decode"] = map[string]interface{}{"stream_at_guard_end": encEnd, "dst_at_guard_end": ddEnd, "dst_mode": dmode}
	s.c.jrnl("  decode case=%d streamAtEnd=%v dstAtEnd=%v dstMode=%d enclen=%d", i, encEnd, ddEnd, dmode, len(encCopy))
	got, err := snappy.Decode(dd, encBuf)
	s.c.inc("judged")
	if m := chkEnc(); m != "" {
		s.fail("snappy/decode-writes-outside-buffers", "Decode: stream "+m, w)
	}
	if m := chkDD(); m != "" {
		s.fail("snappy/decode-writes-outside-buffers", "Decode: destination "+m, w)
	}
	if !bytes.Equal(encBuf, encCopy) {
		s.fail("snappy/decode-modifies-source", "Decode changed its input", w)
	}
	if err != nil || !bytes.Equal(got, x) {
		w["encoded_head"] = hexHead(encCopy)
		s.fail("snappy/roundtrip-mismatch/"+famNames[fam], fmt.Sprintf("Decode(Encode(x)) != x: err=%v len=%d want %d first difference at %d", err, len(got), n, firstDiff(got, x)), w)
	}
}

var copyOffsets = []int{1, 2, 3, 4, 5, 6, 7, 8, 9, 10, 11, 12, 13, 14, 15, 16, 17, 31, 32, 33, 63, 64, 65, 255, 256, 257, 2046, 2047, 2048, 2049, 65534, 65535, 65536, 65537, 70000, 100000, 131072}

// randomStream builds a valid stream with every tag kind through the reference builder.
func randomStream(r *vlib.Rand) (stream, plain []byte, elems int) {
	var el []snappyref.Elem
	cur := 0
	first := 1 + r.Intn(40)
	switch r.Intn(5) {
	case 0:
		first = 66000 + r.Intn(80000)
	case 1:
		first = 2040 + r.Intn(20)
	}
	el = append(el, snappyref.Elem{Lit: r.Bytes(first)})
	cur = first
	n := 1 + r.Intn(40)
	for k := 0; k < n && cur < 400000; k++ {
		if r.Intn(3) == 0 {
			l := 1 + r.Intn(70)
			switch r.Intn(8) {
			case 0:
				l = 255 + r.Intn(4)
			case 1:
				l = 65535 + r.Intn(4)
			case 2:
				l = 59 + r.Intn(4)
			}
			e := snappyref.Elem{Lit: r.Bytes(l)}
			if r.Intn(4) == 0 { // non-minimal explicit length encoding
				nb := 1 + r.Intn(4)
				if nb == 4 || l <= 1<<(8*uint(nb)) {
					e.LitLenBytes = nb
				}
			}
			el = append(el, e)
			cur += l
			continue
		}
		off := copyOffsets[r.Intn(len(copyOffsets))]
		if r.Intn(3) == 0 {
			off = 1 + r.Intn(cur)
		}
		if off > cur {
			off = 1 + r.Intn(cur)
		}
		l := 1 + r.Intn(64)
		switch r.Intn(6) {
		case 0:
			l = 64 + r.Intn(300)
		case 1:
			l = 4 + r.Intn(8)
		case 2:
			l = 1 + r.Intn(4)
		}
		kind := 0
		switch r.Intn(4) {
		case 0:
			kind = 4
		case 1:
			if off < 65536 {
				kind = 2
			}
		case 2:
			if off < 2048 && l >= 4 {
				kind = 1
			}
		}
		el = append(el, snappyref.Elem{Copy: true, Offset: off, Length: l, Kind: kind})
		cur += l
	}
	stream, plain = snappyref.Build(el)
	return stream, plain, len(el)
}

// decodeGuarded runs gocoin's Decode on the stream with both buffers guarded.
func (s *snapChild) decodeGuarded(r *vlib.Rand, stream []byte, declared int, w map[string]interface{}) (got []byte, err error, bad bool) {
	encEnd, ddEnd, dmode := r.Bool(), r.Bool(), r.Intn(3)
	encBuf, chkEnc := s.src.place(len(stream), encEnd, 0x3c)
	copy(encBuf, stream)
	var dd []byte
	chkDD := func() string { return "" }
	switch dmode {
	case 0:
	case 1:
		dd, chkDD = s.dec.place(declared, ddEnd, 0xc3)
	default:
		dd, chkDD = s.dec.place(declared+r.Intn(64), ddEnd, 0xc3)
	}
	w["decode"] = map[string]interface{}{"stream_at_guard_end": encEnd, "dst_at_guard_end": ddEnd, "dst_mode": dmode}
	s.c.jrnl("  decode streamAtEnd=%v dstAtEnd=%v dstMode=%d", encEnd, ddEnd, dmode)
	got, err = snappy.Decode(dd, encBuf)
	if m := chkEnc(); m != "" {
		s.fail("snappy/decode-writes-outside-buffers", "Decode: stream "+m, w)
		bad = true
	}
	if m := chkDD(); m != "" {
		s.fail("snappy/decode-writes-outside-buffers", "Decode: destination "+m, w)
		bad = true
	}
	if !bytes.Equal(encBuf, stream) {
		s.fail("snappy/decode-modifies-source", "Decode changed its input", w)
		bad = true
	}
	return
}

func (s *snapChild) validStream(i int, root *vlib.Rand) {
	r := root.Fork(fmt.Sprint("vs", i))
	stream, plain, ne := randomStream(r)
	s.c.jrnl("validstream case=%d elems=%d plain=%d stream=%s", i, ne, len(plain), hexHead(stream))
	w := map[string]interface{}{"case": i, "kind": "valid-stream", "elements": ne, "plain_len": len(plain), "stream_head": hexHead(stream), "variant": s.c.variant}
	defer func() {
		if p := recover(); p != nil {
			w["stack"] = vlib.Tail(debug.Stack(), 1500)
			s.fail("snappy/panic/decode-valid-stream", fmt.Sprintf("Decode panicked on a valid stream: %v", p), w)
		}
	}()
	if chk, err := snappyref.Decode(stream, 1<<26); err != nil || !bytes.Equal(chk, plain) {
		s.c.mu.Lock()
		s.c.inconcl = append(s.c.inconcl, fmt.Sprintf("reference builder and decoder disagree on case %d", i))
		s.c.mu.Unlock()
		return
	}
	got, err, _ := s.decodeGuarded(r, stream, len(plain), w)
	s.c.inc("snappy_valid_streams_decoded")
	s.c.inc("judged")
	s.c.dist("cases", s.c.variant, "snappy-valid", ne/8, sizeClass(len(plain)+81))
	if err != nil {
		s.fail("snappy/decode-rejects-valid-stream", fmt.Sprintf("Decode returned %v for a valid stream of %d elements", err, ne), w)
	} else if !bytes.Equal(got, plain) {
		s.fail("snappy/decode-wrong-output/valid-stream", fmt.Sprintf("Decode output differs from the reference at %d of %d", firstDiff(got, plain), len(plain)), w)
	}
}

func (s *snapChild) mutated(i int, root *vlib.Rand) {
	r := root.Fork(fmt.Sprint("mu", i))
	var stream []byte
	switch r.Intn(3) {
	case 0:
		stream, _, _ = randomStream(r)
		if len(stream) > 200000 {
			stream = stream[:200000]
		}
	case 1:
		x := genContent(r, r.Intn(3000), r.Intn(len(famNames)))
		stream = snappy.Encode(nil, x)
	default:
		x := genContent(r, 60000+r.Intn(80000), 2+r.Intn(len(famNames)-2))
		stream = snappy.Encode(nil, x)
	}
	stream = append([]byte(nil), stream...)
	mut := r.Intn(8)
	switch mut {
	case 0: // truncate
		stream = stream[:r.Intn(len(stream)+1)]
	case 1: // bit flips
		for k := 1 + r.Intn(3); k > 0 && len(stream) > 0; k-- {
			stream[r.Intn(len(stream))] ^= 1 << uint(r.Intn(8))
		}
	case 2: // byte replacement, biased to the front (tags of the first elements)
		for k := 1 + r.Intn(3); k > 0 && len(stream) > 0; k-- {
			p := r.Intn(len(stream))
			if r.Bool() {
				p = r.Intn(min(len(stream), 24))
			}
			stream[p] = byte(r.Intn(256))
		}
	case 3: // declared length changed
		dl, hl, err := snappyref.DecodedLen(stream)
		if err == nil {
			nd := dl + int64(r.Intn(41)) - 20
			if r.Intn(3) == 0 {
				nd = int64(r.Intn(1 << 20))
			}
			if nd < 0 {
				nd = 0
			}
			var hdr []byte
			v := uint64(nd)
			for v >= 0x80 {
				hdr = append(hdr, byte(v)|0x80)
				v >>= 7
			}
			hdr = append(hdr, byte(v))
			stream = append(hdr, stream[hl:]...)
		}
	case 4: // garbage appended
		stream = append(stream, r.Bytes(1+r.Intn(20))...)
	case 5: // a tag inserted
		p := r.Intn(len(stream) + 1)
		ins := r.Bytes(1 + r.Intn(5))
		stream = append(stream[:p:p], append(ins, stream[p:]...)...)
	case 6: // random bytes behind a small header
		stream = append([]byte{byte(r.Intn(128))}, r.Bytes(r.Intn(60))...)
	default: // truncate and then extend with zeros / 0xff
		stream = stream[:r.Intn(len(stream)+1)]
		f := []byte{0, 0xff, 0xfc, 0xf0}[r.Intn(4)]
		for k := r.Intn(12); k > 0; k-- {
			stream = append(stream, f)
		}
	}
	s.c.jrnl("mutated case=%d mut=%d stream=%s", i, mut, hexHead(stream))
	w := map[string]interface{}{"case": i, "kind": "mutated-stream", "mutation": mut, "stream_len": len(stream), "stream_head": hexHead(stream), "variant": s.c.variant}
	dl, _, herr := snappyref.DecodedLen(stream)
	if herr == nil && dl > 16<<20 {
		s.c.inc("snappy_mutated_skipped_declares_over_16MiB")
		return
	}
	defer func() {
		if p := recover(); p != nil {
			w["stack"] = vlib.Tail(debug.Stack(), 1500)
			s.fail("snappy/panic/decode-mutated-stream", fmt.Sprintf("Decode panicked on a corrupt stream: %v", p), w)
		}
	}()
	ref, rerr := snappyref.Decode(stream, 17<<20)
	declared := 0
	if herr == nil {
		declared = int(dl)
	}
	got, err, _ := s.decodeGuarded(r, stream, declared, w)
	s.c.inc("snappy_mutated_streams_decoded")
	s.c.inc("judged")
	s.c.dist("cases", s.c.variant, "snappy-mutated", mut, err == nil, sizeClass(len(stream)+81))
	switch {
	case err == nil && rerr != nil:
		s.c.inc("snappy_mutated_accepted")
		s.fail("snappy/decode-accepts-invalid-stream", fmt.Sprintf("Decode accepted a stream that the format forbids (reference: %v)", rerr), w)
	case err != nil && rerr == nil:
		s.c.inc("snappy_mutated_rejected")
		s.fail("snappy/decode-rejects-valid-stream", fmt.Sprintf("Decode returned %v for a stream that is valid per the format", err), w)
	case err == nil:
		s.c.inc("snappy_mutated_accepted")
		if !bytes.Equal(got, ref) {
			s.fail("snappy/decode-wrong-output/mutated-stream", fmt.Sprintf("Decode output differs from the reference at %d of %d", firstDiff(got, ref), len(ref)), w)
		}
	default:
		s.c.inc("snappy_mutated_rejected")
	}
}

func childSnappy(args []string) {
	c := newCtx()
	seed, _ := strconv.ParseUint(args[0], 10, 64)
	nRT, _ := strconv.Atoi(args[1])
	nValid, _ := strconv.Atoi(args[2])
	nMut, _ := strconv.Atoi(args[3])
	s := &snapChild{c: c, maxLen: 4194304 + 81}
	enc := snappy.MaxEncodedLen(s.maxLen) + 4096
	if 17<<20 > enc {
		enc = 17 << 20
	}
	s.src, s.dst, s.dec = newArena(enc), newArena(enc), newArena(enc)
	// self-test of the canary machinery
	b, chk := s.dst.place(10, true, 1)
	if chk() != "" {
		panic("canary self-test")
	}
	s.dst.data[len(s.dst.data)-11] ^= 1
	if chk() == "" {
		panic("canary self-test 2")
	}
	_ = b
	root := vlib.NewRand(seed)
	c.write(false)
	for i := 0; i < nRT; i++ {
		s.roundTrip(i, root)
	}
	c.write(false)
	for i := 0; i < nValid; i++ {
		s.validStream(i, root)
	}
	c.write(false)
	for i := 0; i < nMut; i++ {
		s.mutated(i, root)
	}
	c.write(true)
}
