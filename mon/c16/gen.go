package main

import (
	"crypto/sha256"
	"encoding/binary"

	"verif/lib/vlib"
)

// Content families (snappy corner cases). Every family is deterministic in (PRNG, n).
var famNames = []string{"random", "run", "rep4", "offset-boundary", "planted4", "biglit", "lzmix", "text", "islands"}

var boundaryDist = []int{1, 2, 3, 4, 5, 7, 8, 9, 15, 16, 17, 31, 32, 33, 59, 60, 61, 63, 64, 65, 67, 255, 256, 257,
	2043, 2047, 2048, 2049, 2052, 4095, 4096, 16383, 16384, 32767, 32768, 65531, 65535, 65536, 65537, 65540, 131071, 131072, 131073}

func genContent(r *vlib.Rand, n int, fam int) []byte {
	b := make([]byte, n)
	if n == 0 {
		return b
	}
	switch famNames[fam] {
	case "random":
		r.Fill(b)
	case "run":
		v := byte(r.Intn(256))
		if r.Intn(3) == 0 {
			v = []byte{0, 0xff, 0x20}[r.Intn(3)]
		}
		for i := range b {
			b[i] = v
		}
		for k := r.Intn(4); k > 0; k-- { // a few perturbations split the run
			b[r.Intn(n)] ^= byte(1 + r.Intn(255))
		}
	case "rep4":
		var p [4]byte
		r.Fill(p[:])
		ph := r.Intn(4)
		for i := range b {
			b[i] = p[(i+ph)&3]
		}
		for k := r.Intn(3); k > 0; k-- {
			b[r.Intn(n)] ^= byte(1 + r.Intn(255))
		}
	case "offset-boundary":
		// a random chunk of D bytes repeated: every match lies exactly at offset D
		d := boundaryDist[r.Intn(len(boundaryDist))]
		if d > n {
			d = 1 + r.Intn(n)
		}
		r.Fill(b[:d])
		for i := d; i < n; i++ {
			b[i] = b[i-d]
		}
		if r.Bool() && n > d+8 { // break the periodicity once so that a second literal is needed
			b[d+r.Intn(n-d)] ^= 0x55
		}
	case "planted4":
		// incompressible filler with one 4..12-byte pattern planted at distance D (and 2D, 3D…)
		r.Fill(b)
		d := boundaryDist[r.Intn(len(boundaryDist))]
		l := 4 + r.Intn(9)
		if d+l+l < n {
			start := r.Intn(n - d - l)
			for p := start + d; p+l <= n; p += d {
				copy(b[p:p+l], b[start:start+l])
				if r.Intn(4) == 0 {
					break
				}
			}
		}
	case "biglit":
		// more than 64 KiB of literal, then compressible data
		lit := 65536 + 1 + r.Intn(70000)
		if lit > n {
			lit = n
		}
		r.Fill(b[:lit])
		for i := lit; i < n; i++ {
			b[i] = b[i-lit+(i&7)]
		}
	case "lzmix":
		i := 0
		lens := []int{1, 2, 3, 4, 5, 11, 12, 13, 59, 60, 61, 62, 63, 64, 65, 66, 67, 68, 127, 128, 129, 255, 256, 257, 1000, 5000}
		for i < n {
			l := lens[r.Intn(len(lens))]
			if r.Intn(4) == 0 {
				l = 1 + r.Intn(300)
			}
			if l > n-i {
				l = n - i
			}
			if i == 0 || r.Intn(5) < 2 {
				r.Fill(b[i : i+l])
			} else {
				off := 1 + r.Intn(i)
				if r.Bool() {
					d := boundaryDist[r.Intn(len(boundaryDist))]
					if d <= i {
						off = d
					}
				}
				for k := 0; k < l; k++ {
					b[i+k] = b[i+k-off]
				}
			}
			i += l
		}
	case "text":
		al := 2 + r.Intn(14)
		for i := range b {
			b[i] = byte('a' + r.Intn(al))
		}
	case "islands":
		i := 0
		for i < n {
			l := 1 + r.Intn(400)
			if l > n-i {
				l = n - i
			}
			if r.Bool() {
				r.Fill(b[i : i+l])
			}
			i += l
		}
	}
	return b
}

func sha256d(b []byte) (h [32]byte) {
	a := sha256.Sum256(b)
	return sha256.Sum256(a[:])
}

func putVarint(b []byte, v uint64) []byte {
	switch {
	case v < 0xfd:
		return append(b, byte(v))
	case v < 0x10000:
		return append(b, 0xfd, byte(v), byte(v>>8))
	default:
		var t [4]byte
		binary.LittleEndian.PutUint32(t[:], uint32(v))
		return append(append(b, 0xfe), t[:]...)
	}
}

// makeBlock returns a serialized block of exactly n bytes (n >= 81) and its transaction count.
// structured: header + varint(ntx) + coinbase + filler transactions whose scripts carry the content;
// otherwise header + varint(ntx) + content bytes.
func makeBlock(r *vlib.Rand, n int, fam int, structured bool) (raw []byte, ntx uint32) {
	hdr := r.Bytes(80)
	binary.LittleEndian.PutUint32(hdr[0:4], 0x20000000)
	if n <= 81 {
		return append(hdr, 0), 0
	}
	if !structured || n < 81+70 {
		cnt := uint64(r.Intn(0xfd))
		if n > 90 && r.Intn(4) == 0 {
			cnt = 0xfd + uint64(r.Intn(5000))
		}
		raw = putVarint(hdr, cnt)
		raw = append(raw, genContent(r, n-len(raw), fam)...)
		return raw, uint32(cnt)
	}
	// structured: every script length uses the 3-byte (fd) varint form so that sizes are exact
	const fixed = 4 + 1 + 36 + 3 + 4 + 1 + 8 + 1 + 1 + 4 // = 63 bytes per tx around its input script
	body := n - 80 - 1
	wantMin := (body + fixed + 65535 - 1) / (fixed + 65535)
	maxTx := body / fixed
	if wantMin < 1 {
		wantMin = 1
	}
	if maxTx > 0xfc {
		maxTx = 0xfc
	}
	if wantMin > maxTx {
		return makeBlock(r, n, fam, false)
	}
	want := wantMin + r.Intn(1+min(maxTx-wantMin, 1+body/3000))
	avail := body - want*fixed
	content := genContent(r, avail, fam)
	raw = append(hdr, byte(want))
	for t := 0; t < want; t++ {
		k := want - t
		lo, hi := avail-(k-1)*65535, min(65535, avail)
		if lo < 0 {
			lo = 0
		}
		l := hi
		if k > 1 {
			l = lo + r.Intn(hi-lo+1)
		} else {
			l = avail
		}
		raw = append(raw, 1, 0, 0, 0, 1)
		raw = appendPrevout(raw, r, t == 0)
		raw = append(raw, 0xfd, byte(l), byte(l>>8))
		raw = append(raw, content[:l]...)
		content = content[l:]
		avail -= l
		raw = append(raw, 0xff, 0xff, 0xff, 0xff, 1)
		raw = append(raw, 0, 0xf2, 0x05, 0x2a, 1, 0, 0, 0, 1, 0x51)
		raw = append(raw, 0, 0, 0, 0)
	}
	if len(raw) != n {
		panic("makeBlock: size bookkeeping")
	}
	return raw, uint32(want)
}

func appendPrevout(raw []byte, r *vlib.Rand, coinbase bool) []byte {
	if coinbase {
		raw = append(raw, make([]byte, 32)...)
		return append(raw, 0xff, 0xff, 0xff, 0xff)
	}
	raw = append(raw, r.Bytes(32)...)
	return append(raw, byte(r.Intn(4)), 0, 0, 0)
}

func min(a, b int) int {
	if a < b {
		return a
	}
	return b
}

func sizeClass(n int) string {
	switch {
	case n <= 81:
		return "81"
	case n <= 200:
		return "<=200"
	case n <= 5000:
		return "<=5k"
	case n <= 65536+200:
		return "<=64k"
	case n <= 300000:
		return "<=300k"
	case n <= 1200000:
		return "<=1.2M"
	default:
		return "<=4M"
	}
}
