//go:build verif

// C19 — the embedded key-value store qdb behaves as a durable map.
//
// Part 1 (shadow map): seeded random operation histories over 8..64 keys are executed against the
// real package lib/others/qdb in journaling child workers; every result (Get bytes, Browse /
// BrowseAll sets, Count, state after Close+reopen, state after abandoning the handle and reopening)
// is compared with a Go map holding unique values (key id ‖ write counter ‖ length ‖ filler).
//
// Part 2 (crash enumeration): hook points vhook.Point("qdb.*") sit between consecutive file-system
// effects of sync(), defrag(), writedatfile(), cleanupold(), the file creators and the open path.
// Pass 1 traces workloads to learn how often each point is hit, pass 2 kills a child at chosen
// (point, n) pairs (process death, page cache intact), a fresh child reopens the directory and
// dumps it; per key the content must be the value covered by the last completed sync/defrag/close
// or any later written value / deletion, and the store must open (twice, identically) and accept
// a further write. A second crash during the recovery open is injected as well.
//
// The history generator is a pure function of (mode, seed, nops): parent and child derive the same
// operation list (print it with `c19.main ops <mode> <seed> <nops>`); the child journals progress so
// that a dead child leaves a witness:
//
//	B <i> <a> <b>  operation i starts; a/b = number of records the exact caching mirror considers lost
//	               (A: NO_CACHE record freed before any sync; B: pending record freed after a defrag)
//	L <k> A|B      record k entered that state during the operation
//	D <i>          a durable point (Close) was completed inside operation i
//	E <i> <d>      operation i acknowledged (store mutex free again); d=1: a sync/defrag completed
//
// Modes: "guard" (4 of 5 histories, all crash workloads) steers around the known NO_CACHE findings
// (FINDINGS.md F1, F2) so that histories run their full length; "free" has no restriction: there the
// store is expected to kill the worker, the parent classifies the death by the journaled history
// shape + the process output and goes on with the other histories.
package main

import (
	"bytes"
	"crypto/sha256"
	"encoding/binary"
	"encoding/hex"
	"encoding/json"
	"fmt"
	"io"
	"os"
	"path/filepath"
	"sort"
	"strconv"
	"strings"
	"sync"
	"time"

	"github.com/piotrnar/gocoin/lib/others/qdb"
	"github.com/piotrnar/gocoin/lib/others/vhook"
	"verif/lib/vlib"
)

// ---------------------------------------------------------------------------------------------
// configuration of one history (pure function of mode+seed+nops)

type Cfg struct {
	Mode             string // "guard", "free", "crash"
	Seed             uint64
	NKeys, NOps      int
	Vol              bool
	Guard            bool // generator avoids the known NO_CACHE finding
	Crash            bool // crash workload: no abandon, more syncs / defrags
	DefaultOpts      bool
	MaxPending       uint32
	MaxPendingNoSync uint32
	DefragPerc       uint32
	ForcedPerc       uint32
	Records          uint
	Big              bool
	Keys             []uint64
}

const probeKey = 0x50524f42454b4559 // "PROBEKEY": written by the dump child after recovery

var probeValue = []byte("probe value written after recovery")

func mkCfg(mode string, seed uint64, nops int) Cfg {
	r := vlib.NewRand(seed).Fork("cfg/" + mode)
	c := Cfg{Mode: mode, Seed: seed, NOps: nops}
	c.Guard = mode != "free"
	c.Crash = mode == "crash"
	switch r.Intn(4) {
	case 0:
		c.NKeys = 8
	case 1:
		c.NKeys = r.Range(8, 16)
	case 2:
		c.NKeys = r.Range(16, 40)
	default:
		c.NKeys = r.Range(40, 64)
	}
	if c.Crash {
		c.NKeys = r.Range(8, 24)
		c.Vol = r.Intn(6) == 0
	} else {
		c.Vol = r.Intn(5) == 0
	}
	c.DefaultOpts = !c.Crash && r.Intn(10) == 0
	c.MaxPending = uint32(r.Intn(c.NKeys/2 + 2)) // 0..n
	if r.Intn(3) == 0 {
		c.MaxPending = uint32(r.Intn(3))
	}
	c.MaxPendingNoSync = c.MaxPending + uint32(r.Intn(c.NKeys+1))
	c.DefragPerc = []uint32{1, 10, 50, 200}[r.Intn(4)]
	c.ForcedPerc = []uint32{5, 50, 300, 100000}[r.Intn(4)]
	if r.Bool() {
		c.Records = uint(c.NKeys)
	}
	c.Big = r.Intn(10) < 6
	if c.Crash {
		c.Big = r.Intn(10) < 3
	}
	seen := map[uint64]bool{probeKey: true}
	for i := 0; i < c.NKeys; i++ {
		k := r.U64()
		if i == 0 && r.Intn(3) == 0 {
			k = 0
		}
		if i == 1 && r.Intn(3) == 0 {
			k = ^uint64(0)
		}
		if i == 2 && r.Intn(3) == 0 {
			k = 1 << 32
		}
		for seen[k] {
			k = r.U64()
		}
		seen[k] = true
		c.Keys = append(c.Keys, k)
	}
	return c
}

func (c Cfg) opts(vol, load bool, walk qdb.QdbWalkFunction) *qdb.NewDBOpts {
	o := &qdb.NewDBOpts{Records: c.Records, LoadData: load, Volatile: vol, WalkFunction: walk}
	if !c.DefaultOpts {
		o.ExtraOpts = &qdb.ExtraOpts{DefragPercentVal: c.DefragPerc, ForcedDefragPerc: c.ForcedPerc,
			MaxPending: c.MaxPending, MaxPendingNoSync: c.MaxPendingNoSync}
	}
	return o
}

// ---------------------------------------------------------------------------------------------
// unique values: cnt(4) ‖ key id(4) ‖ len(4) ‖ filler(key id, cnt), truncated to the length

func mkval(kid int, cnt uint32, n int) []byte {
	b := make([]byte, n)
	var hdr [12]byte
	binary.LittleEndian.PutUint32(hdr[0:], cnt)
	binary.LittleEndian.PutUint32(hdr[4:], uint32(kid))
	binary.LittleEndian.PutUint32(hdr[8:], uint32(n))
	copy(b, hdr[:])
	s := uint64(kid)*0x9E3779B97F4A7C15 ^ uint64(cnt)*0xBF58476D1CE4E5B9 ^ 0xC19
	for i := 12; i < n; {
		s += 0x9E3779B97F4A7C15
		z := s
		z = (z ^ (z >> 30)) * 0xBF58476D1CE4E5B9
		z = (z ^ (z >> 27)) * 0x94D049BB133111EB
		z ^= z >> 31
		for j := 0; j < 8 && i < n; j++ {
			b[i] = byte(z)
			z >>= 8
			i++
		}
	}
	return b
}

func describe(b []byte) string {
	if b == nil {
		return "absent"
	}
	h := b
	if len(h) > 12 {
		h = h[:12]
	}
	s := fmt.Sprintf("len=%d head=%s", len(b), hex.EncodeToString(h))
	if len(b) >= 12 {
		s += fmt.Sprintf(" (claims cnt=%d key=%d len=%d)", binary.LittleEndian.Uint32(b), binary.LittleEndian.Uint32(b[4:]), binary.LittleEndian.Uint32(b[8:]))
	}
	return s
}

// ---------------------------------------------------------------------------------------------
// operations and the pure generator

const (
	opPut = iota
	opDel
	opGet
	opBrowse
	opApply
	opSync
	opNoSync
	opDefrag
	opFlush
	opReopen
	opAbandon
	nKinds
)

var kindName = []string{"Put", "Del", "Get", "Browse", "ApplyFlags", "Sync", "NoSync", "Defrag", "Flush", "CloseReopen", "AbandonReopen"}

type Op struct {
	K      int
	Key    int
	Cnt    uint32
	Len    int
	Fl     uint32
	Ext    bool
	Resp   []uint32 // Browse / walk responses by key id
	Abort  int      // BR_ABORT returned from the n-th callback (1-based); 0 = never
	All    bool     // BrowseAll
	Inside int      // key id read with GetNoMutex inside the callbacks, -1 = none
	Force  bool
	Load   bool
	Walk   bool
	Vol    bool
	Verify bool // full sweep after reopen
}

func flagStr(f uint32) string {
	var s []string
	for _, x := range []struct {
		b uint32
		n string
	}{{qdb.NO_BROWSE, "NO_BROWSE"}, {qdb.NO_CACHE, "NO_CACHE"}, {qdb.BR_ABORT, "BR_ABORT"}, {qdb.YES_CACHE, "YES_CACHE"}, {qdb.YES_BROWSE, "YES_BROWSE"}} {
		if f&x.b != 0 {
			s = append(s, x.n)
		}
	}
	if len(s) == 0 {
		return "0"
	}
	return strings.Join(s, "|")
}

func (o Op) String() string {
	switch o.K {
	case opPut:
		if o.Ext {
			return fmt.Sprintf("PutExt(k%d,#%d,len=%d,%s)", o.Key, o.Cnt, o.Len, flagStr(o.Fl))
		}
		return fmt.Sprintf("Put(k%d,#%d,len=%d)", o.Key, o.Cnt, o.Len)
	case opDel, opGet:
		return fmt.Sprintf("%s(k%d)", kindName[o.K], o.Key)
	case opApply:
		return fmt.Sprintf("ApplyFlags(k%d,%s)", o.Key, flagStr(o.Fl))
	case opBrowse:
		n := "Browse"
		if o.All {
			n = "BrowseAll"
		}
		var rs []string
		for k, f := range o.Resp {
			if f != 0 {
				rs = append(rs, fmt.Sprintf("k%d:%s", k, flagStr(f)))
			}
		}
		return fmt.Sprintf("%s(abort@%d,inside=k%d,resp={%s})", n, o.Abort, o.Inside, strings.Join(rs, ","))
	case opDefrag:
		return fmt.Sprintf("Defrag(%v)", o.Force)
	case opReopen, opAbandon:
		return fmt.Sprintf("%s(load=%v,walk=%v,volatile=%v,verify=%v)", kindName[o.K], o.Load, o.Walk, o.Vol, o.Verify)
	}
	return kindName[o.K] + "()"
}

func pickLen(r *vlib.Rand, big bool) int {
	x := r.Intn(100)
	switch {
	case x < 6:
		b := []int{0, 1, 2, 3, 4, 11, 12, 13, 4095, 4096, 4097, 65535, 65536}
		n := b[r.Intn(len(b))]
		if !big && n > 4097 {
			n = 0
		}
		return n
	case x < 40:
		return r.Intn(65)
	case x < 75:
		return r.Intn(1025)
	case x < 93:
		return r.Intn(8193)
	}
	if big {
		return r.Intn(65537)
	}
	return r.Intn(2049)
}

var respChoices = []uint32{qdb.NO_BROWSE, qdb.YES_BROWSE, qdb.NO_CACHE, qdb.YES_CACHE, qdb.NO_BROWSE | qdb.NO_CACHE,
	qdb.YES_BROWSE | qdb.YES_CACHE, qdb.NO_BROWSE | qdb.YES_CACHE, qdb.YES_BROWSE | qdb.NO_CACHE}

// genOps is pure: it never looks at results. In guard mode it keeps a conservative state
// (dirty = written since the last explicit Sync / Close, i.e. possibly still in PendingRecords and
// possibly without a disk copy; mnc = may carry NO_CACHE) and never lets Browse / BrowseAll / Defrag
// free the in-memory data of such a record (the two known findings).
func genOps(c Cfg) []Op {
	r := vlib.NewRand(c.Seed).Fork("ops/" + c.Mode)
	cnt := make([]uint32, c.NKeys)
	dirty := make([]bool, c.NKeys)
	mnc := make([]bool, c.NKeys)
	vol := c.Vol
	var ops []Op
	w := []int{30, 10, 17, 8, 6, 5, 2, 5, 2, 4, 2}
	if c.Crash {
		w = []int{36, 10, 8, 6, 3, 9, 2, 9, 1, 5, 0}
	}
	tot := 0
	for _, x := range w {
		tot += x
	}
	pickKey := func() int {
		if r.Intn(2) == 0 {
			h := 4
			if h > c.NKeys {
				h = c.NKeys
			}
			return r.Intn(h)
		}
		return r.Intn(c.NKeys)
	}
	allClean := func() {
		for i := range dirty {
			dirty[i] = false
		}
	}
	mkResp := func() []uint32 {
		resp := make([]uint32, c.NKeys)
		quiet := r.Intn(3) == 0
		for k := range resp {
			if quiet || r.Intn(10) < 6 {
				continue
			}
			f := respChoices[r.Intn(len(respChoices))]
			if c.Guard && dirty[k] {
				f &^= qdb.NO_CACHE
			}
			resp[k] = f
			if f&qdb.NO_CACHE != 0 {
				mnc[k] = true
			}
		}
		return resp
	}
	syncIfRisky := func() {
		if !c.Guard {
			return
		}
		for i := range dirty {
			if dirty[i] && mnc[i] { // non-volatile only (volatile guard never creates such records)
				ops = append(ops, Op{K: opSync, Inside: -1})
				allClean()
				return
			}
		}
	}
	for len(ops) < c.NOps {
		x := r.Intn(tot)
		k := 0
		for x >= w[k] {
			x -= w[k]
			k++
		}
		op := Op{K: k, Inside: -1}
		switch k {
		case opPut:
			op.Key = pickKey()
			cnt[op.Key]++
			op.Cnt = cnt[op.Key]
			op.Len = pickLen(r, c.Big)
			op.Ext = r.Bool()
			if op.Ext {
				op.Fl = []uint32{0, 0, qdb.NO_CACHE, qdb.NO_CACHE, qdb.NO_BROWSE, qdb.NO_BROWSE | qdb.NO_CACHE}[r.Intn(6)]
				if c.Guard && vol {
					op.Fl &^= qdb.NO_CACHE
				}
			}
			dirty[op.Key] = true
			mnc[op.Key] = op.Fl&qdb.NO_CACHE != 0
		case opDel:
			op.Key = pickKey()
			dirty[op.Key] = true
			mnc[op.Key] = false
		case opGet:
			op.Key = pickKey()
			mnc[op.Key] = false
		case opApply:
			op.Key = pickKey()
			op.Fl = respChoices[r.Intn(len(respChoices))]
			if c.Guard && vol && dirty[op.Key] {
				op.Fl &^= qdb.NO_CACHE
			}
			if op.Fl&qdb.NO_CACHE != 0 {
				mnc[op.Key] = true
			}
		case opBrowse:
			syncIfRisky()
			op.All = r.Intn(4) == 0
			op.Resp = mkResp()
			if r.Intn(100) < 35 {
				op.Abort = 1 + r.Intn(c.NKeys)
			}
			if r.Intn(100) < 30 {
				op.Inside = r.Intn(c.NKeys)
			}
		case opSync:
			if !vol {
				allClean()
			}
		case opDefrag:
			syncIfRisky()
			op.Force = r.Bool()
		case opReopen, opAbandon:
			op.Load = r.Intn(10) < 6
			op.Vol = vol
			if !c.Crash && r.Intn(20) == 0 {
				op.Vol = !vol
			}
			if k == opReopen && op.Load && r.Intn(3) == 0 {
				op.Walk = true
			}
			op.Verify = r.Bool()
			vol = op.Vol
			allClean()
			if op.Walk {
				op.Resp = mkResp()
			}
		}
		ops = append(ops, op)
	}
	return ops
}

// ---------------------------------------------------------------------------------------------
// durability tracker (used by the child for AbandonReopen and by the parent for crash runs)

type vid struct {
	Present bool
	Cnt     uint32
	Len     int
}

func (v vid) String() string {
	if !v.Present {
		return "absent"
	}
	return fmt.Sprintf("#%d(len=%d)", v.Cnt, v.Len)
}

type durTracker struct {
	cur   map[int]vid
	dur   map[int]vid
	later map[int][]vid
	all   map[int][]vid // every value ever written per key
}

func newTracker() *durTracker {
	return &durTracker{cur: map[int]vid{}, dur: map[int]vid{}, later: map[int][]vid{}, all: map[int][]vid{}}
}
func (t *durTracker) put(k int, v vid) {
	if v.Present {
		t.cur[k] = v
		t.all[k] = append(t.all[k], v)
	} else {
		delete(t.cur, k)
	}
	t.later[k] = append(t.later[k], v)
}
func (t *durTracker) durable() {
	t.dur = map[int]vid{}
	for k, v := range t.cur {
		t.dur[k] = v
	}
	t.later = map[int][]vid{}
}
func (t *durTracker) allowed(k int) []vid {
	res := []vid{t.dur[k]} // zero vid = absent
	res = append(res, t.later[k]...)
	return res
}
func (t *durTracker) apply(o Op) {
	switch o.K {
	case opPut:
		t.put(o.Key, vid{true, o.Cnt, o.Len})
	case opDel:
		t.put(o.Key, vid{})
	}
}

// judge classifies an observed value of key k after a crash / abandon. "" = allowed.
func (t *durTracker) judge(k int, present bool, n int, sum [32]byte) (class, what string) {
	al := t.allowed(k)
	for _, a := range al {
		if a.Present != present {
			continue
		}
		if !present {
			return "", ""
		}
		if a.Len == n && sha256.Sum256(mkval(k, a.Cnt, a.Len)) == sum {
			return "", ""
		}
	}
	if !present {
		return "lost-synced-key", fmt.Sprintf("key k%d is absent but its last synced value is %v and no deletion followed (allowed: %v)", k, t.dur[k], al)
	}
	for _, a := range t.all[k] {
		if a.Len == n && sha256.Sum256(mkval(k, a.Cnt, a.Len)) == sum {
			if !t.dur[k].Present && len(t.later[k]) == 0 {
				return "deleted-key-resurrected", fmt.Sprintf("key k%d holds %v although its deletion was covered by a completed sync", k, a)
			}
			return "older-than-last-synced", fmt.Sprintf("key k%d holds %v which is older than its last synced value (allowed: %v)", k, a, al)
		}
	}
	return "value-never-written", fmt.Sprintf("key k%d holds a value (len %d) that was never written for it (allowed: %v)", k, n, al)
}

// ---------------------------------------------------------------------------------------------
// child: executes one history against the real store with an exact shadow

type rec struct {
	v         vid
	nb        bool          // NO_BROWSE as the map model believes
	nbCand    map[bool]bool // values NO_BROWSE had since the last Put of the key
	altClose  bool          // clean reopen happened while nbCand had two values
	nbUnknown bool          // after AbandonReopen: adopt on first observation
	// exact mirror of the caching state, used only to predict / classify the known findings
	nc       bool // NO_CACHE
	noDisk   bool // no completed sync/defrag has covered the current value
	pending  bool // still listed for the next sync()
	mem      bool // data held in memory
	reported string
}

// lost: "A" = the only copy is gone (no memory, no disk); "B" = pending for sync() without data in memory
func (r *rec) lost() string {
	if !r.mem && r.noDisk {
		return "A"
	}
	if !r.mem && r.pending {
		return "B"
	}
	return ""
}

type failure struct {
	Class   string      `json:"class"`
	What    string      `json:"what"`
	OpIndex int         `json:"op_index"`
	Op      string      `json:"op"`
	Details interface{} `json:"details,omitempty"`
}

type childStats struct {
	Ops      int            `json:"ops"`
	Kinds    map[string]int `json:"kinds"`
	Checks   int            `json:"checks"` // compared results
	Durable  int            `json:"durable_points"`
	AutoDur  int            `json:"durable_points_from_auto_sync_or_defrag"`
	Known    map[string]int `json:"known"`
	KnownWit map[string]string
	Hooks    map[string]int `json:"hooks"`
	MaxLen   int            `json:"max_len"`
	Done     bool           `json:"done"`
}

type exec struct {
	cfg              Cfg
	ops              []Op
	dir              string
	db               *qdb.DB
	old              []*qdb.DB
	sh               map[int]*rec
	kid              map[uint64]int
	trk              *durTracker
	jf               *os.File
	base             string
	st               childStats
	i                int
	vol              bool
	syncCt, defragCt int
}

func (e *exec) jline(format string, a ...interface{}) {
	fmt.Fprintf(e.jf, format+"\n", a...)
}

func (e *exec) writeStats() {
	e.st.Hooks = vhook.Counts()
	b, _ := json.Marshal(&e.st)
	os.WriteFile(e.base+".stats", b, 0o644)
}

func (e *exec) fail(class, what string, details interface{}) {
	f := failure{Class: class, What: what, OpIndex: e.i, Details: details}
	if e.i < len(e.ops) {
		f.Op = e.ops[e.i].String()
	}
	b, _ := json.Marshal(&f)
	os.WriteFile(e.base+".fail", b, 0o644)
	e.writeStats()
	os.Exit(3)
}

func (e *exec) known(class, witness string) {
	e.st.Known[class]++
	if _, ok := e.st.KnownWit[class]; !ok {
		e.st.KnownWit[class] = fmt.Sprintf("op %d %s: %s", e.i, e.ops[e.i], witness)
	}
}

func (e *exec) key(k int) qdb.KeyType { return qdb.KeyType(e.cfg.Keys[k]) }

func setNB(r *rec, v bool) {
	if r.nbUnknown { // the persisted flag is not known: either value may come back after a reopen
		r.nbCand[true], r.nbCand[false] = true, true
	}
	r.nb = v
	r.nbCand[v] = true
	r.altClose = false
	r.nbUnknown = false
}

// applyResp mirrors the documented meaning of the callback / ApplyFlags result bits.
func (e *exec) applyResp(k int, r *rec, f uint32) {
	if f&qdb.NO_BROWSE != 0 {
		setNB(r, true)
	} else if f&qdb.YES_BROWSE != 0 {
		setNB(r, false)
	}
	if f&qdb.NO_CACHE != 0 {
		r.nc = true
	} else if f&qdb.YES_CACHE != 0 {
		r.nc = false
	}
}

// visited: the store has just walked record k (Browse / BrowseAll): it frees NO_CACHE data.
func (e *exec) visited(k int, r *rec) {
	r.mem = !r.nc
	e.noteLost(k, r)
}

func (e *exec) noteLost(k int, r *rec) {
	if l := r.lost(); l != r.reported {
		r.reported = l
		if l != "" {
			e.jline("L %d %s", k, l)
		}
	}
}

func (e *exec) nLost() (a, b int) {
	for _, r := range e.sh {
		switch r.lost() {
		case "A":
			a++
		case "B":
			b++
		}
	}
	return
}

// afterStoreWork mirrors what a completed sync() / defrag() did to the caching state.
func (e *exec) afterStoreWork(synced, defragged bool) {
	for k, r := range e.sh {
		if synced && r.pending {
			r.pending, r.noDisk = false, false
			if r.nc {
				r.mem = false
			}
		}
		if defragged {
			r.noDisk = false
			if r.nc {
				r.mem = false
			}
		}
		e.noteLost(k, r)
	}
}

func (e *exec) checkVal(where string, k int, got []byte) {
	e.st.Checks++
	r := e.sh[k]
	if r == nil {
		if got != nil {
			e.fail(where+"/value-for-absent-key", fmt.Sprintf("%s: key k%d is not in the map but the store returned %s", where, k, describe(got)), nil)
		}
		return
	}
	if got == nil {
		e.fail(where+"/missing-key", fmt.Sprintf("%s: key k%d holds %v in the map but the store has nothing", where, k, r.v), nil)
	}
	want := mkval(k, r.v.Cnt, r.v.Len)
	if !bytes.Equal(got, want) {
		cls := where + "/wrong-value"
		for _, a := range e.trk.all[k] {
			if a != r.v && a.Len == len(got) && bytes.Equal(got, mkval(k, a.Cnt, a.Len)) {
				cls = where + "/stale-value"
			}
		}
		e.fail(cls, fmt.Sprintf("%s: key k%d: map holds %v, store returned %s", where, k, r.v, describe(got)), nil)
	}
}

func (e *exec) checkCount(where string) {
	c := e.db.Count() // also a barrier: waits for an asynchronous sync()/defrag() to release the mutex
	e.st.Checks++
	if c != len(e.sh) {
		e.fail(where+"/count", fmt.Sprintf("%s: Count()=%d but the map holds %d keys", where, c, len(e.sh)), nil)
	}
}

func (e *exec) durable(auto bool) {
	e.trk.durable()
	e.st.Durable++
	if auto {
		e.st.AutoDur++
	}
}

func hookDurCount() (syncs, defrags int) {
	c := vhook.Counts()
	return c["qdb.sync.end"], c["qdb.defrag.end"]
}

// observeVis: key k (present in the map) was / was not shown by a complete Browse.
func (e *exec) observeVis(k int, r *rec, vis bool) {
	e.st.Checks++
	if vis == !r.nb {
		if r.altClose || r.nbUnknown { // first observation after a reopen: the persisted flag is the current one
			r.nbCand = map[bool]bool{r.nb: true}
			r.altClose, r.nbUnknown = false, false
		}
		return
	}
	switch {
	case r.nbUnknown:
	case r.altClose && r.nbCand[!r.nb]:
		e.known("reopen/flag-change-not-persisted", fmt.Sprintf("key k%d: map has NO_BROWSE=%v (changed by ApplyFlags/Browse before Close), store after reopen behaves as NO_BROWSE=%v", k, r.nb, !vis))
	default:
		e.fail("browse/visibility", fmt.Sprintf("Browse: key k%d has NO_BROWSE=%v in the map but visited=%v", k, r.nb, vis), nil)
	}
	r.nb = !vis
	r.nbCand = map[bool]bool{r.nb: true}
	r.altClose, r.nbUnknown = false, false
}

func (e *exec) sweep(where string) {
	seen := map[int]bool{}
	e.db.BrowseAll(func(k qdb.KeyType, v []byte) uint32 {
		id, ok := e.kid[uint64(k)]
		if !ok {
			e.fail(where+"/unknown-key", fmt.Sprintf("%s: BrowseAll shows key %016x which was never used", where, uint64(k)), nil)
		}
		if seen[id] {
			e.fail(where+"/duplicate-visit", fmt.Sprintf("%s: BrowseAll visited k%d twice", where, id), nil)
		}
		seen[id] = true
		e.checkVal(where, id, v)
		if e.sh[id] == nil {
			e.fail(where+"/value-for-absent-key", fmt.Sprintf("%s: BrowseAll visited k%d which is not in the map", where, id), nil)
		}
		e.visited(id, e.sh[id])
		return 0
	})
	for k := range e.sh {
		if !seen[k] {
			e.fail(where+"/missing-key", fmt.Sprintf("%s: BrowseAll did not show k%d", where, k), nil)
		}
	}
}

func (e *exec) run() {
	nopts := e.cfg.opts(e.cfg.Vol, true, nil)
	nopts.Dir = e.dir
	var db *qdb.DB
	qdb.NewDBExt(&db, nopts)
	e.db = db
	e.vol = e.cfg.Vol
	e.syncCt, e.defragCt = hookDurCount()
	for e.i = 0; e.i < len(e.ops); e.i++ {
		o := e.ops[e.i]
		la, lb := e.nLost()
		e.jline("B %d %d %d", e.i, la, lb)
		e.st.Ops++
		e.st.Kinds[kindName[o.K]]++
		expl := false
		switch o.K {
		case opPut:
			v := mkval(o.Key, o.Cnt, o.Len)
			if o.Len > e.st.MaxLen {
				e.st.MaxLen = o.Len
			}
			if o.Ext {
				e.db.PutExt(e.key(o.Key), v, o.Fl)
			} else {
				e.db.Put(e.key(o.Key), v)
			}
			nb := o.Fl&qdb.NO_BROWSE != 0
			e.sh[o.Key] = &rec{v: vid{true, o.Cnt, o.Len}, nb: nb, nbCand: map[bool]bool{nb: true}, nc: o.Fl&qdb.NO_CACHE != 0, noDisk: true, mem: true, pending: !e.vol}
			e.trk.apply(o)
		case opDel:
			e.db.Del(e.key(o.Key))
			delete(e.sh, o.Key)
			e.trk.apply(o)
		case opGet:
			got := e.db.Get(e.key(o.Key))
			e.checkVal("get", o.Key, got)
			if r := e.sh[o.Key]; r != nil {
				r.nc = false // documented: Get keeps the record cached
				r.mem = true
				e.noteLost(o.Key, r)
			}
		case opApply:
			e.db.ApplyFlags(e.key(o.Key), o.Fl)
			if r := e.sh[o.Key]; r != nil {
				e.applyResp(o.Key, r, o.Fl)
			}
		case opBrowse:
			e.browse(o)
		case opSync:
			e.db.Sync()
			expl = !e.vol
		case opNoSync:
			e.db.NoSync()
		case opDefrag:
			doing := e.db.Defrag(o.Force)
			if !e.vol {
				if o.Force && !doing {
					e.fail("defrag/forced-not-done", "Defrag(true) returned false in non-volatile mode", nil)
				}
				expl = doing
			}
		case opFlush:
			e.db.Flush()
		case opReopen:
			e.reopen(o)
		case opAbandon:
			e.abandon(o)
		}
		e.checkCount("after-" + kindName[o.K])
		sc, dc := hookDurCount()
		auto := sc != e.syncCt || dc != e.defragCt
		if o.K != opReopen && o.K != opAbandon {
			e.afterStoreWork(sc != e.syncCt, dc != e.defragCt)
		}
		e.syncCt, e.defragCt = sc, dc
		if expl || auto {
			e.durable(!expl)
			e.jline("E %d 1", e.i)
		} else {
			e.jline("E %d 0", e.i)
		}
	}
	// final: everything must still be there after a clean close and reopen
	e.i = len(e.ops)
	e.ops = append(e.ops, Op{K: opReopen, Load: e.cfg.Seed&1 == 0, Vol: e.vol, Verify: true, Inside: -1})
	la, lb := e.nLost()
	e.jline("B %d %d %d", e.i, la, lb)
	e.reopen(e.ops[e.i])
	e.checkCount("final")
	e.db.Close()
	e.jline("E %d 1", e.i)
	e.st.Done = true
	e.writeStats()
	e.jline("DONE")
}

func (e *exec) browse(o Op) {
	where := "browse"
	if o.All {
		where = "browseall"
	}
	seen := map[int]bool{}
	n := 0
	aborted := false
	cb := func(k qdb.KeyType, v []byte) uint32 {
		n++
		id, ok := e.kid[uint64(k)]
		if !ok {
			e.fail(where+"/unknown-key", fmt.Sprintf("%s shows key %016x which was never used", where, uint64(k)), nil)
		}
		if aborted {
			e.fail(where+"/callback-after-abort", fmt.Sprintf("%s: callback invoked for k%d after BR_ABORT was returned", where, id), nil)
		}
		if seen[id] {
			e.fail(where+"/duplicate-visit", fmt.Sprintf("%s visited k%d twice", where, id), nil)
		}
		seen[id] = true
		e.checkVal(where, id, v)
		r := e.sh[id]
		if r == nil {
			e.fail(where+"/value-for-absent-key", fmt.Sprintf("%s visited k%d which is not in the map", where, id), nil)
		}
		if !o.All {
			e.observeVis(id, r, true) // reached by Browse => the store treats it as browsable
		}
		if o.Inside >= 0 && o.Inside != id {
			got := e.db.GetNoMutex(e.key(o.Inside))
			e.checkVal(where+"-getnomutex", o.Inside, got)
			if ri := e.sh[o.Inside]; ri != nil {
				ri.mem = true
				e.noteLost(o.Inside, ri)
			}
		}
		res := o.Resp[id]
		e.applyResp(id, r, res)
		e.visited(id, r)
		if o.Abort == n {
			aborted = true
			res |= qdb.BR_ABORT
		}
		return res
	}
	if o.All {
		e.db.BrowseAll(cb)
	} else {
		e.db.Browse(cb)
	}
	if aborted {
		return
	}
	for k, r := range e.sh {
		if o.All {
			if !seen[k] {
				e.fail(where+"/missing-key", fmt.Sprintf("BrowseAll did not show k%d", k), nil)
			}
			continue
		}
		if !seen[k] {
			// only visited records get their flags changed by this Browse, so an unseen key was
			// hidden (NO_BROWSE) before the Browse started
			e.observeVis(k, r, false)
		}
	}
}

func (e *exec) reopen(o Op) {
	e.db.Close()
	// Close is a durable point in both modes (volatile mode writes everything on Close)
	e.durable(false)
	e.jline("D %d", e.i)
	for _, r := range e.sh {
		if len(r.nbCand) > 1 {
			r.altClose = true
		}
		r.nc, r.noDisk, r.pending, r.mem, r.reported = false, false, false, true, ""
	}
	var walk qdb.QdbWalkFunction
	seen := map[int]bool{}
	if o.Walk {
		walk = func(k qdb.KeyType, v []byte) uint32 {
			id, ok := e.kid[uint64(k)]
			if !ok {
				e.fail("reopen-walk/unknown-key", fmt.Sprintf("load walk shows key %016x which was never used", uint64(k)), nil)
			}
			if seen[id] {
				e.fail("reopen-walk/duplicate-visit", fmt.Sprintf("load walk visited k%d twice", id), nil)
			}
			seen[id] = true
			e.checkVal("reopen-walk", id, v)
			if e.sh[id] == nil {
				e.fail("reopen-walk/value-for-absent-key", fmt.Sprintf("load walk visited k%d which is not in the map", id), nil)
			}
			e.applyResp(id, e.sh[id], o.Resp[id])
			return o.Resp[id]
		}
	}
	oo := e.cfg.opts(o.Vol, o.Load, walk)
	oo.Dir = e.dir
	var db *qdb.DB
	qdb.NewDBExt(&db, oo)
	e.db = db
	e.vol = o.Vol
	if o.Walk {
		for k := range e.sh {
			if !seen[k] {
				e.fail("reopen-walk/missing-key", fmt.Sprintf("load walk after Close did not show k%d", k), nil)
			}
		}
	}
	if o.Verify {
		e.sweep("reopen")
	}
}

func (e *exec) abandon(o Op) {
	// the handle is dropped without Close (what a process death at an operation boundary leaves)
	e.old = append(e.old, e.db)
	oo := e.cfg.opts(o.Vol, o.Load, nil)
	oo.Dir = e.dir
	var db *qdb.DB
	qdb.NewDBExt(&db, oo)
	e.db = db
	e.vol = o.Vol
	obs := map[int][]byte{}
	e.db.BrowseAll(func(k qdb.KeyType, v []byte) uint32 {
		id, ok := e.kid[uint64(k)]
		if !ok {
			e.fail("abandon-reopen/unknown-key", fmt.Sprintf("after abandon+reopen the store shows key %016x which was never used", uint64(k)), nil)
		}
		obs[id] = append([]byte{}, v...)
		return 0
	})
	nsh := map[int]*rec{}
	for k := 0; k < e.cfg.NKeys; k++ {
		v, present := obs[k]
		e.st.Checks++
		cls, what := e.trk.judge(k, present, len(v), sha256.Sum256(v))
		if cls != "" {
			e.fail("abandon-reopen/"+cls, "after dropping the handle without Close and reopening: "+what+"; observed "+describe(v), nil)
		}
		got := e.db.Get(e.key(k))
		if present != (got != nil) || !bytes.Equal(got, v) {
			e.fail("abandon-reopen/get-browse-disagree", fmt.Sprintf("k%d: BrowseAll showed %s, Get returned %s", k, describe(v), describe(got)), nil)
		}
		if present {
			cnt := uint32(0)
			for _, a := range e.trk.allowed(k) {
				if a.Present && a.Len == len(v) && bytes.Equal(v, mkval(k, a.Cnt, a.Len)) {
					cnt = a.Cnt
				}
			}
			nsh[k] = &rec{v: vid{true, cnt, len(v)}, nbCand: map[bool]bool{false: true}, nbUnknown: true, mem: true}
		}
	}
	e.sh = nsh
	// new baseline: what is on disk now
	e.trk.cur = map[int]vid{}
	for k, r := range nsh {
		e.trk.cur[k] = r.v
	}
	e.trk.durable()
}

func childHist(args []string) {
	mode := args[0]
	seed, _ := strconv.ParseUint(args[1], 10, 64)
	nops, _ := strconv.Atoi(args[2])
	dir := args[3]
	base := args[4]
	vhook.SetObserver(func(string) {}) // activates the per-point counters
	cfg := mkCfg(mode, seed, nops)
	e := &exec{cfg: cfg, ops: genOps(cfg), dir: dir, sh: map[int]*rec{}, kid: map[uint64]int{}, trk: newTracker(), base: base}
	e.st.Kinds = map[string]int{}
	e.st.Known = map[string]int{}
	e.st.KnownWit = map[string]string{}
	for i, k := range cfg.Keys {
		e.kid[k] = i
	}
	var err error
	e.jf, err = os.OpenFile(base+".journal", os.O_CREATE|os.O_WRONLY|os.O_TRUNC, 0o644)
	if err != nil {
		fmt.Println("cannot open journal:", err)
		os.Exit(4)
	}
	e.run()
}

// ---------------------------------------------------------------------------------------------
// dump child: opens a directory (after a crash), dumps it, reopens, compares, writes a probe key

type dumpRec struct {
	Key string `json:"k"`
	Len int    `json:"len"`
	Sha string `json:"sha"`
	Hdr string `json:"hdr"`
}
type dumpOut struct {
	Count         int       `json:"count"`
	Recs          []dumpRec `json:"recs"`
	GetMismatch   []string  `json:"get_mismatch"`
	SecondDiffers string    `json:"second_differs"`
	ProbeFailed   string    `json:"probe_failed"`  // a write made after recovery did not survive Close+reopen
	ProbeChanged  string    `json:"probe_changed"` // other content changed by that write
	Stage         string    `json:"stage"`
}

func dumpDB(db *qdb.DB, out *dumpOut) []dumpRec {
	var recs []dumpRec
	vals := map[uint64][]byte{}
	db.BrowseAll(func(k qdb.KeyType, v []byte) uint32 {
		h := v
		if len(h) > 12 {
			h = h[:12]
		}
		s := sha256.Sum256(v)
		vals[uint64(k)] = append([]byte{}, v...)
		if uint64(k) == probeKey || uint64(k) == probeKey+1 { // written by this or an earlier (crashed) dump child; checked separately
			if !bytes.Equal(v, probeValue) {
				out.ProbeFailed = "probe key holds " + describe(v)
			}
			return 0
		}
		recs = append(recs, dumpRec{fmt.Sprintf("%016x", uint64(k)), len(v), hex.EncodeToString(s[:]), hex.EncodeToString(h)})
		return 0
	})
	sort.Slice(recs, func(i, j int) bool { return recs[i].Key < recs[j].Key })
	for k, v := range vals {
		got := db.Get(qdb.KeyType(k))
		if got == nil || !bytes.Equal(got, v) {
			out.GetMismatch = append(out.GetMismatch, fmt.Sprintf("key %016x: BrowseAll %s, Get %s", k, describe(v), describe(got)))
		}
	}
	if c := db.Count(); c != len(vals) {
		out.GetMismatch = append(out.GetMismatch, fmt.Sprintf("Count()=%d but BrowseAll showed %d records", c, len(vals)))
	}
	return recs
}

func childDump(args []string) {
	dir := args[0]
	load := args[1] == "1"
	outf := args[2]
	var out dumpOut
	save := func(stage string) {
		out.Stage = stage
		b, _ := json.Marshal(&out)
		os.WriteFile(outf, b, 0o644)
	}
	save("opening")
	var db *qdb.DB
	qdb.NewDBExt(&db, &qdb.NewDBOpts{Dir: dir, LoadData: load})
	out.Recs = dumpDB(db, &out)
	out.Count = len(out.Recs)
	save("dumped")
	// the session that did the recovery writes as well (it is the one that has just refused or replayed a log): what it
	// syncs must be there after its Close
	db.Put(probeKey+1, probeValue)
	db.Sync()
	db.Close()
	qdb.NewDBExt(&db, &qdb.NewDBOpts{Dir: dir, LoadData: !load})
	if got := db.Get(probeKey + 1); !bytes.Equal(got, probeValue) {
		out.ProbeFailed = "a key written and synced by the recovering session itself is not there after its Close and a reopen: " + describe(got)
	}
	second := dumpDB(db, &out)
	a, _ := json.Marshal(out.Recs)
	b, _ := json.Marshal(second)
	if !bytes.Equal(a, b) {
		out.SecondDiffers = fmt.Sprintf("first open showed %d records, second open %d (or different content)", len(out.Recs), len(second))
	}
	save("second")
	pv := probeValue
	db.Put(probeKey, pv)
	db.Sync()
	db.Close()
	qdb.NewDBExt(&db, &qdb.NewDBOpts{Dir: dir, LoadData: load})
	if got := db.Get(probeKey); !bytes.Equal(got, pv) {
		out.ProbeFailed = "a key written and synced after recovery is not there after Close+reopen: " + describe(got)
	}
	third := dumpDB(db, &out)
	c, _ := json.Marshal(third)
	if out.ProbeFailed == "" && !bytes.Equal(a, c) {
		out.ProbeChanged = "content changed after writing one more key, Sync, Close and reopen"
	}
	db.Close()
	save("done")
}

// ---------------------------------------------------------------------------------------------
// parent

type journal struct {
	lines        []string
	lastB        int
	lastE        int
	lostA, lostB bool
	done         bool
}

func readJournal(path string) journal {
	j := journal{lastB: -1, lastE: -1}
	b, _ := os.ReadFile(path)
	for _, ln := range strings.Split(string(b), "\n") {
		f := strings.Fields(ln)
		if len(f) == 0 {
			continue
		}
		j.lines = append(j.lines, ln)
		switch f[0] {
		case "B":
			if len(f) < 4 {
				continue
			}
			j.lastB, _ = strconv.Atoi(f[1])
			j.lostA = f[2] != "0"
			j.lostB = f[3] != "0"
		case "E":
			if len(f) < 3 {
				continue
			}
			j.lastE, _ = strconv.Atoi(f[1])
		case "L":
			if len(f) >= 3 && f[2] == "A" {
				j.lostA = true
			}
			if len(f) >= 3 && f[2] == "B" {
				j.lostB = true
			}
		case "DONE":
			j.done = true
		}
	}
	return j
}

// trackerFromJournal replays the (pure) operation list along the journal.
func trackerFromJournal(ops []Op, j journal) *durTracker {
	t := newTracker()
	for _, ln := range j.lines {
		f := strings.Fields(ln)
		switch f[0] {
		case "B":
			i, _ := strconv.Atoi(f[1])
			if i < len(ops) {
				t.apply(ops[i])
			}
		case "D":
			t.durable()
		case "E":
			if len(f) >= 3 && f[2] == "1" {
				t.durable()
			}
		}
	}
	return t
}

func opsWindow(ops []Op, upto int) []string {
	var s []string
	lo := upto - 60
	if lo < 0 {
		lo = 0
	}
	for i := lo; i <= upto && i < len(ops); i++ {
		s = append(s, fmt.Sprintf("%d: %s", i, ops[i]))
	}
	return s
}

type histResult struct {
	res   vlib.ChildResult
	j     journal
	st    childStats
	fail  *failure
	cfg   Cfg
	ops   []Op
	wit   map[string]interface{}
	class string // "" ok
	what  string
}

var (
	selfBin string
	tmpRoot string
)

func runHist(mode string, seed uint64, nops int, tag string, env []string) *histResult {
	dir := filepath.Join(tmpRoot, tag, "db")
	os.MkdirAll(dir, 0o755)
	base := filepath.Join(tmpRoot, tag, "j")
	h := &histResult{}
	h.cfg = mkCfg(mode, seed, nops)
	h.ops = genOps(h.cfg)
	env = append(env, "GOTRACEBACK=all")
	h.res = vlib.RunChild(selfBin, []string{"child-hist", mode, fmt.Sprint(seed), fmt.Sprint(nops), dir, base}, env, nil, 5*time.Minute)
	h.j = readJournal(base + ".journal")
	if b, err := os.ReadFile(base + ".stats"); err == nil {
		json.Unmarshal(b, &h.st)
	}
	if b, err := os.ReadFile(base + ".fail"); err == nil {
		h.fail = &failure{}
		json.Unmarshal(b, h.fail)
	}
	cfgw := h.cfg
	h.wit = map[string]interface{}{"mode": mode, "hist_seed": fmt.Sprint(seed), "nops": nops, "cfg": cfgw, "env": env,
		"replay_cmd": fmt.Sprintf("./check C19 quick --replay-hist %s %d %d", mode, seed, nops)}
	return h
}

// classify decides what a finished / dead history child means. crashExpected: the child was
// started with VERIF_CRASH_AT (SIGKILL is then the expected end).
func (h *histResult) classify(crashExpected bool) {
	out := string(h.res.Out)
	upto := h.j.lastB
	h.wit["ops_before_end"] = opsWindow(h.ops, upto)
	h.wit["journal_tail"] = tailLines(h.j.lines, 8)
	switch {
	case h.res.TimedOut:
		h.class, h.what = "inconclusive", "watchdog"
	case h.fail != nil:
		h.class, h.what = h.fail.Class, h.fail.What
		h.wit["failure"] = h.fail
	case h.res.ExitCode == 0 && h.j.done:
	case crashExpected && h.res.ExitCode == -1 && strings.Contains(h.res.Signal, "killed"):
	default:
		kind := "open"
		if upto >= len(h.ops) {
			kind = "final-CloseReopen"
		} else if upto >= 0 {
			kind = kindName[h.ops[upto].K]
		}
		h.wit["output_tail"] = vlib.Tail(h.res.Out, 2500)
		h.wit["exit"] = fmt.Sprintf("code=%d signal=%s", h.res.ExitCode, h.res.Signal)
		switch {
		case h.j.lostA && h.res.ExitCode == 1 && strings.Contains(out, "00000000.dat not found"):
			h.class = "death/nocache-unsynced-freed-by-browse/file-not-found-exit"
			h.what = fmt.Sprintf("a record stored with NO_CACHE and walked by Browse before its first sync lost its only copy; %s then made the process print 'file ...00000000.dat not found' and os.Exit(1)", kind)
		case h.j.lostA && strings.Contains(out, "nil pointer dereference") && strings.Contains(out, "qdb.(*oneIdx).Slice") && strings.Contains(out, "qdb.(*DB).sync"):
			h.class = "death/nocache-unsynced-freed-by-browse/nil-deref-in-sync"
			h.what = fmt.Sprintf("a record stored with NO_CACHE and walked by Browse before its first sync lost its only copy; the sync() run by %s dereferenced the nil data pointer (panic)", kind)
		case h.j.lostB && strings.Contains(out, "nil pointer dereference") && strings.Contains(out, "qdb.(*oneIdx).Slice") && strings.Contains(out, "qdb.(*DB).sync"):
			h.class = "death/nocache-pending-freed-after-defrag/nil-deref-in-sync"
			h.what = fmt.Sprintf("a NO_CACHE record still listed in PendingRecords had its in-memory data freed (defrag() wrote it and freed it, or a later Browse did) and the sync() run by %s dereferenced the nil data pointer without loading it back (panic)", kind)
		default:
			sig := fmt.Sprintf("exit%d", h.res.ExitCode)
			if h.res.ExitCode == -1 {
				sig = "signal-" + strings.ReplaceAll(h.res.Signal, " ", "-")
			}
			if i := strings.Index(out, "panic: "); i >= 0 {
				ln := out[i:]
				if n := strings.IndexByte(ln, '\n'); n > 0 {
					ln = ln[:n]
				}
				sig = "panic:" + squash(ln[7:])
			} else if strings.Contains(out, "Database corrupt - missing file") {
				sig = "exit-database-corrupt-missing-file"
			} else if strings.Contains(out, "not found") {
				sig = "exit-file-not-found"
			} else if i := strings.Index(out, "fatal error: "); i >= 0 {
				ln := out[i:]
				if n := strings.IndexByte(ln, '\n'); n > 0 {
					ln = ln[:n]
				}
				sig = "fatal:" + squash(ln[13:])
			}
			h.class = "death/" + kind + "/" + sig
			h.what = fmt.Sprintf("the worker process died during %s (%s)", kind, sig)
		}
	}
}

func squash(s string) string {
	var b strings.Builder
	for _, c := range s {
		switch {
		case c >= '0' && c <= '9':
			b.WriteByte('N')
		case c == ' ':
			b.WriteByte('_')
		default:
			b.WriteRune(c)
		}
	}
	r := b.String()
	for strings.Contains(r, "NN") {
		r = strings.ReplaceAll(r, "NN", "N")
	}
	if len(r) > 60 {
		r = r[:60]
	}
	return r
}

func tailLines(l []string, n int) []string {
	if len(l) > n {
		return l[len(l)-n:]
	}
	return l
}

type monitor struct {
	run     *vlib.Run
	mu      sync.Mutex
	hooks   map[string]int
	sampled map[string]bool
}

func (m *monitor) account(h *histResult, family string) {
	run := m.run
	done := h.j.lastE + 1
	if h.st.Ops == 0 && done > 0 { // killed child: no stats file, the journal tells how far it got
		h.st.Ops = done
	}
	run.Count("ops_executed", int64(h.st.Ops))
	run.Count("results_compared", int64(h.st.Checks))
	run.Count(family+"_ops", int64(h.st.Ops))
	run.Count("durable_points", int64(h.st.Durable))
	run.Count("durable_points_auto", int64(h.st.AutoDur))
	for k, v := range h.st.Kinds {
		run.Count("op_"+k, int64(v))
	}
	for i := 0; i < done && i < len(h.ops); i++ {
		o := h.ops[i]
		run.Distinct("cases", family, h.cfg.Seed, i)
		run.Distinct("op_shapes", o.K, o.Ext, o.Fl, o.All, o.Abort > 0, o.Inside >= 0, o.Force, o.Load, o.Walk, o.Vol, lenClass(o.Len))
		if o.K == opPut {
			run.Distinct("value_lengths", o.Len)
		}
	}
	run.Distinct("configs", h.cfg.NKeys, h.cfg.Vol, h.cfg.MaxPending, h.cfg.MaxPendingNoSync, h.cfg.DefragPerc, h.cfg.ForcedPerc, h.cfg.DefaultOpts)
	m.mu.Lock()
	for k, v := range h.st.Hooks {
		m.hooks[k] += v
	}
	m.mu.Unlock()
	for cls, n := range h.st.Known {
		for i := 0; i < n; i++ {
			w := map[string]interface{}{}
			for k, v := range h.wit {
				w[k] = v
			}
			w["detail"] = h.st.KnownWit[cls]
			run.Violation(cls, h.st.KnownWit[cls], w)
		}
	}
}

func lenClass(n int) int {
	c := 0
	for n > 0 {
		n >>= 1
		c++
	}
	return c
}

func (m *monitor) report(h *histResult) bool {
	switch h.class {
	case "":
		return true
	case "inconclusive":
		m.run.Inconclusive("history child watchdog fired (mode=%s seed=%d)", h.cfg.Mode, h.cfg.Seed)
	default:
		m.run.Violation(h.class, h.what, h.wit)
	}
	return false
}

func parseTrace(path string) (map[string]int, []string) {
	b, _ := os.ReadFile(path)
	cnt := map[string]int{}
	var order []string
	for _, ln := range strings.Split(string(b), "\n") {
		if ln == "" || strings.HasPrefix(ln, "CRASH ") {
			continue
		}
		if cnt[ln] == 0 {
			order = append(order, ln)
		}
		cnt[ln]++
	}
	sort.Strings(order)
	return cnt, order
}

func copyDir(src, dst string) error {
	os.MkdirAll(dst, 0o755)
	ents, err := os.ReadDir(src)
	if err != nil {
		return err
	}
	for _, en := range ents {
		if en.IsDir() {
			continue
		}
		in, err := os.Open(filepath.Join(src, en.Name()))
		if err != nil {
			return err
		}
		out, err := os.Create(filepath.Join(dst, en.Name()))
		if err != nil {
			in.Close()
			return err
		}
		io.Copy(out, in)
		in.Close()
		out.Close()
	}
	return nil
}

func listDir(dir string) []string {
	var s []string
	ents, _ := os.ReadDir(dir)
	for _, en := range ents {
		if fi, err := en.Info(); err == nil {
			s = append(s, fmt.Sprintf("%s(%d)", en.Name(), fi.Size()))
		}
	}
	return s
}

// checkDump runs a dump child on dir and applies the crash oracle. Returns the trace counts of the
// dump child (hook points hit while recovering) and whether everything was fine.
func (m *monitor) checkDump(dir string, load bool, cfg Cfg, trk *durTracker, point string, wit map[string]interface{}, stage string) (map[string]int, bool) {
	outf := dir + "." + stage + ".dump.json"
	tracef := dir + "." + stage + ".trace"
	ld := "0"
	if load {
		ld = "1"
	}
	before := listDir(dir)
	res := vlib.RunChild(selfBin, []string{"child-dump", dir, ld, outf}, []string{"VERIF_TRACE=" + tracef, "GOTRACEBACK=all"}, nil, 3*time.Minute)
	w := map[string]interface{}{}
	for k, v := range wit {
		w[k] = v
	}
	w["files_before_reopen"] = before
	w["reopen_load_data"] = load
	w["stage"] = stage
	if res.TimedOut {
		m.run.Inconclusive("dump child watchdog fired")
		return nil, false
	}
	var d dumpOut
	if b, err := os.ReadFile(outf); err == nil {
		json.Unmarshal(b, &d)
	}
	tc, _ := parseTrace(tracef)
	m.mu.Lock()
	for k, v := range tc {
		m.hooks[k] += v
	}
	m.mu.Unlock()
	if res.ExitCode != 0 || d.Stage != "done" {
		w["output_tail"] = vlib.Tail(res.Out, 2500)
		w["dump_stage_reached"] = d.Stage
		sig := "exit"
		o := string(res.Out)
		switch {
		case strings.Contains(o, "Database corrupt - missing file"):
			sig = "exit-database-corrupt-missing-file"
		case strings.Contains(o, "not found"):
			sig = "exit-file-not-found"
		case strings.Contains(o, "panic: "):
			i := strings.Index(o, "panic: ")
			ln := o[i+7:]
			if n := strings.IndexByte(ln, '\n'); n > 0 {
				ln = ln[:n]
			}
			sig = "panic:" + squash(ln)
		}
		st := "first-open"
		if d.Stage == "dumped" || d.Stage == "second" {
			st = "later-open"
		}
		m.run.Violation("crash/open-failed/"+st+"/"+sig+"@"+point, fmt.Sprintf("after a crash at %s the store does not open and work (%s, stage %s): process exit %d %s", point, sig, d.Stage, res.ExitCode, res.Signal), w)
		return tc, false
	}
	ok := true
	kid := map[string]int{}
	for i, k := range cfg.Keys {
		kid[fmt.Sprintf("%016x", k)] = i
	}
	obs := map[int]dumpRec{}
	for _, r := range d.Recs {
		id, known := kid[r.Key]
		if !known {
			w["record"] = r
			m.run.Violation("crash/unknown-key@"+point, fmt.Sprintf("after a crash at %s the store shows key %s which was never written", point, r.Key), w)
			ok = false
			continue
		}
		obs[id] = r
	}
	for k := 0; k < cfg.NKeys; k++ {
		r, present := obs[k]
		var sum [32]byte
		if present {
			b, _ := hex.DecodeString(r.Sha)
			copy(sum[:], b)
		}
		m.run.Count("crash_keys_judged", 1)
		m.run.Count("results_compared", 1)
		if cls, what := trk.judge(k, present, r.Len, sum); cls != "" {
			w["record"] = r
			w["key"] = k
			m.run.Violation("crash/"+cls+"@"+point, fmt.Sprintf("after a crash at %s: %s (observed len=%d hdr=%s)", point, what, r.Len, r.Hdr), w)
			ok = false
			break
		}
	}
	if len(d.GetMismatch) > 0 {
		w["get_mismatch"] = d.GetMismatch
		m.run.Violation("crash/get-browse-count-disagree@"+point, "after a crash at "+point+": "+d.GetMismatch[0], w)
		ok = false
	}
	if d.SecondDiffers != "" {
		m.run.Violation("crash/second-open-differs@"+point, "after a crash at "+point+": "+d.SecondDiffers, w)
		ok = false
	}
	if d.ProbeFailed != "" {
		cls := "crash/write-after-recovery-lost@" + point
		for _, f := range before {
			if f == "qdbidx.log(0)" { // classify by the state that causes it, whichever crash point left it
				cls = "crash/write-after-recovery-lost/zero-length-qdbidx.log"
			}
		}
		m.run.Violation(cls, "after a crash at "+point+" the store reopens, but "+d.ProbeFailed, w)
		ok = false
	}
	if d.ProbeChanged != "" {
		m.run.Violation("crash/content-changed-by-write-after-recovery@"+point, "after a crash at "+point+": "+d.ProbeChanged, w)
		ok = false
	}
	return tc, ok
}

type crashCase struct {
	w     int
	point string
	n     int
}

func (m *monitor) crashRun(id int, wseed uint64, nops int, cc crashCase, r *vlib.Rand) {
	run := m.run
	tag := fmt.Sprintf("crash%d", id)
	defer os.RemoveAll(filepath.Join(tmpRoot, tag))
	at := fmt.Sprintf("%s#%d", cc.point, cc.n)
	h := runHist("crash", wseed, nops, tag, []string{"VERIF_CRASH_AT=" + at})
	h.wit["crash_at"] = at
	h.wit["replay_cmd"] = fmt.Sprintf("./check C19 quick --replay-crash %d %d %s %d", wseed, nops, cc.point, cc.n)
	h.classify(true)
	m.account(h, "crash")
	if !m.report(h) {
		return
	}
	if h.j.done {
		run.Count("crash_point_not_reached", 1)
		return
	}
	run.Count("crash_runs", 1)
	run.Distinct("crash_points_exercised", cc.w, cc.point, cc.n)
	run.Distinct("cases", "crashpoint", cc.w, cc.point, cc.n)
	run.Distinct("crash_point_names", cc.point)
	trk := trackerFromJournal(h.ops, h.j)
	dir := filepath.Join(tmpRoot, tag, "db")
	dir2 := filepath.Join(tmpRoot, tag, "db2")
	copyDir(dir, dir2)
	load := r.Bool()
	tc, ok := m.checkDump(dir, load, h.cfg, trk, cc.point, h.wit, "recovery")
	if ok {
		run.Count("crash_runs_recovered_ok", 1)
		if run.WantSample() && !m.sampledOnce(cc.point) {
			run.Sample(map[string]interface{}{"crash_at": at, "workload_seed": fmt.Sprint(wseed), "ops_acknowledged": h.j.lastE + 1, "in_flight": opAt(h.ops, h.j.lastB),
				"files_after_crash": listDir(dir2), "keys": h.cfg.NKeys, "volatile": h.cfg.Vol})
		}
	}
	// second crash while recovering / during the first operations after recovery
	if tc == nil {
		return
	}
	var names []string
	for k := range tc {
		names = append(names, k)
	}
	sort.Strings(names)
	if len(names) == 0 {
		return
	}
	p2 := names[r.Intn(len(names))]
	n2 := 1 + r.Intn(tc[p2])
	at2 := fmt.Sprintf("%s#%d", p2, n2)
	ld := "0"
	if load {
		ld = "1"
	}
	res := vlib.RunChild(selfBin, []string{"child-dump", dir2, ld, dir2 + ".x.json"}, []string{"VERIF_CRASH_AT=" + at2}, nil, 3*time.Minute)
	if res.TimedOut {
		run.Inconclusive("dump child watchdog fired (second crash)")
		return
	}
	if !(res.ExitCode == -1 && strings.Contains(res.Signal, "killed")) {
		run.Count("recovery_crash_point_not_reached", 1)
		return
	}
	run.Count("recovery_crash_runs", 1)
	run.Distinct("recovery_crash_points_exercised", cc.w, cc.point, cc.n, p2, n2)
	run.Distinct("crash_point_names", p2)
	w2 := map[string]interface{}{}
	for k, v := range h.wit {
		w2[k] = v
	}
	w2["second_crash_at"] = at2
	if _, ok := m.checkDump(dir2, !load, h.cfg, trk, cc.point+"+"+p2, w2, "recovery2"); ok {
		run.Count("recovery_crash_runs_recovered_ok", 1)
	}
}

func (m *monitor) sampledOnce(p string) bool {
	m.mu.Lock()
	defer m.mu.Unlock()
	if m.sampled[p] {
		return true
	}
	m.sampled[p] = true
	return false
}

func opAt(ops []Op, i int) string {
	if i >= 0 && i < len(ops) {
		return ops[i].String()
	}
	return ""
}

func main() {
	if len(os.Args) > 1 {
		switch os.Args[1] {
		case "child-hist":
			childHist(os.Args[2:])
			return
		case "child-dump":
			childDump(os.Args[2:])
			return
		case "ops": // print the operation list of a history: ops <mode> <seed> <nops>
			seed, _ := strconv.ParseUint(os.Args[3], 10, 64)
			nops, _ := strconv.Atoi(os.Args[4])
			c := mkCfg(os.Args[2], seed, nops)
			b, _ := json.Marshal(c)
			fmt.Println(string(b))
			for i, o := range genOps(c) {
				fmt.Printf("%d: %s\n", i, o)
			}
			return
		}
	}
	run := vlib.Start("C19", "fault_enumeration")
	selfBin, _ = os.Executable()
	var err error
	if fi, e := os.Stat("/dev/shm"); e == nil && fi.IsDir() {
		tmpRoot, err = os.MkdirTemp("/dev/shm", "c19-")
	}
	if tmpRoot == "" || err != nil {
		tmpRoot, err = os.MkdirTemp("", "c19-")
	}
	if err != nil {
		fmt.Println("BROKEN property=C19 cannot create scratch directory:", err)
		os.Exit(2)
	}
	m := &monitor{run: run, hooks: map[string]int{}, sampled: map[string]bool{}}
	minDistinct := run.N(3000, 100000)
	finish := func() {
		os.RemoveAll(tmpRoot)
		var hp []string
		for k := range m.hooks {
			hp = append(hp, k)
			run.Distinct("hook_points_hit", k)
		}
		sort.Strings(hp)
		run.Extra("hook_points_hit", m.hooks)
		run.Assume("crash = death of the process between two file operations; the page cache survives (no torn or reordered writes, no power loss)")
		run.Assume("single client goroutine; an operation counts as acknowledged when the store's mutex is free again (asynchronous sync()/defrag() finished)")
		run.Assume("Browse order is Go map order: which keys a BR_ABORTed Browse reaches differs between runs; the oracle follows the observed visits")
		run.Assume("NO_CACHE is a caching hint without map-level meaning; NO_BROWSE is modelled as a per-key attribute of the map")
		run.Finish("each case = one operation of a seeded history executed on the real qdb and compared with a Go map (result, Count, reopen content), or one (workload, hook point, n) process kill followed by reopen + per-key durability oracle; distinct_nontrivial = distinct (history, op index) and (workload, point, n) cases", "results_compared", "cases", minDistinct)
	}

	// ---- replay modes
	for i, a := range os.Args {
		if strings.HasPrefix(a, "--replay") {
			minDistinct = 1
		}
		if a == "--replay-hist" && i+3 < len(os.Args) {
			seed, _ := strconv.ParseUint(os.Args[i+2], 10, 64)
			nops, _ := strconv.Atoi(os.Args[i+3])
			h := runHist(os.Args[i+1], seed, nops, "replay", nil)
			h.classify(false)
			m.account(h, "replay")
			m.report(h)
			fmt.Printf("replay: class=%q %s\n%s\n", h.class, h.what, strings.Join(opsWindow(h.ops, h.j.lastB), "\n"))
			finish()
		}
		if a == "--replay-crash" && i+4 < len(os.Args) {
			seed, _ := strconv.ParseUint(os.Args[i+1], 10, 64)
			nops, _ := strconv.Atoi(os.Args[i+2])
			n, _ := strconv.Atoi(os.Args[i+4])
			m.crashRun(0, seed, nops, crashCase{0, os.Args[i+3], n}, run.Rand("replay"))
			finish()
		}
		if a == "--replay" && i+1 < len(os.Args) {
			b, err := os.ReadFile(os.Args[i+1])
			var doc struct {
				Witness struct {
					Mode     string `json:"mode"`
					HistSeed string `json:"hist_seed"`
					Nops     int    `json:"nops"`
					CrashAt  string `json:"crash_at"`
				} `json:"witness"`
			}
			if err != nil || json.Unmarshal(b, &doc) != nil || doc.Witness.Mode == "" {
				fmt.Println("BROKEN property=C19 cannot read replay file")
				os.Exit(2)
			}
			seed, _ := strconv.ParseUint(doc.Witness.HistSeed, 10, 64)
			if doc.Witness.CrashAt != "" {
				j := strings.LastIndexByte(doc.Witness.CrashAt, '#')
				n, _ := strconv.Atoi(doc.Witness.CrashAt[j+1:])
				m.crashRun(0, seed, doc.Witness.Nops, crashCase{0, doc.Witness.CrashAt[:j], n}, run.Rand("replay"))
			} else {
				h := runHist(doc.Witness.Mode, seed, doc.Witness.Nops, "replay", nil)
				h.classify(false)
				m.account(h, "replay")
				m.report(h)
			}
			finish()
		}
	}

	// ---- part 1: shadow-map histories
	nh := run.N(1000, 40000)
	nops := 150
	rs := run.Rand("histories")
	type hjob struct {
		mode string
		seed uint64
	}
	var hj []hjob
	for i := 0; i < nh; i++ {
		mode := "guard"
		if i%5 == 4 {
			mode = "free"
		}
		hj = append(hj, hjob{mode, rs.U64()})
	}
	vlib.Parallel(len(hj), 16, func(i int) {
		tag := fmt.Sprintf("h%d", i)
		h := runHist(hj[i].mode, hj[i].seed, nops, tag, nil)
		h.classify(false)
		m.account(h, "hist_"+hj[i].mode)
		if m.report(h) {
			run.Count("histories_completed", 1)
			run.Count("histories_completed_"+hj[i].mode, 1)
			if i < 3 {
				run.Sample(map[string]interface{}{"history": hj[i].mode, "seed": fmt.Sprint(hj[i].seed), "keys": h.cfg.NKeys, "volatile": h.cfg.Vol, "max_pending": h.cfg.MaxPending,
					"ops": h.st.Ops, "results_compared": h.st.Checks, "durable_points": h.st.Durable, "first_ops": opsWindow(h.ops, 7)})
			}
		} else {
			run.Count("histories_ended_early_"+hj[i].mode, 1)
		}
		run.Count("histories", 1)
		os.RemoveAll(filepath.Join(tmpRoot, tag))
	})

	// ---- part 2: crash enumeration
	nw := run.N(16, 32)
	cnops := run.N(70, 90)
	rw := run.Rand("crash-workloads")
	wseeds := make([]uint64, nw)
	traces := make([]map[string]int, nw)
	for i := range wseeds {
		wseeds[i] = rw.U64()
	}
	// pass 1: trace
	vlib.Parallel(nw, 16, func(i int) {
		tag := fmt.Sprintf("trace%d", i)
		tf := filepath.Join(tmpRoot, tag+".trace")
		h := runHist("crash", wseeds[i], cnops, tag, []string{"VERIF_TRACE=" + tf})
		h.classify(false)
		m.account(h, "trace")
		if m.report(h) {
			traces[i], _ = parseTrace(tf)
			run.Count("trace_workloads", 1)
		}
		os.RemoveAll(filepath.Join(tmpRoot, tag))
	})
	// pass 2: choose (workload, point, n)
	rc := run.Rand("crash-cases")
	var cases []crashCase
	byPoint := map[string][]int{}
	total := 0
	for w, t := range traces {
		for p, n := range t {
			byPoint[p] = append(byPoint[p], w)
			total += n
		}
	}
	var points []string
	for p := range byPoint {
		points = append(points, p)
		sort.Ints(byPoint[p])
	}
	sort.Strings(points)
	run.Extra("crash_candidates_total", total)
	if run.Thorough() {
		for w, t := range traces {
			var ps []string
			for p := range t {
				ps = append(ps, p)
			}
			sort.Strings(ps)
			for _, p := range ps {
				for n := 1; n <= t[p]; n++ {
					cases = append(cases, crashCase{w, p, n})
				}
			}
		}
	} else if len(points) > 0 {
		budget := 600
		seen := map[crashCase]bool{}
		add := func(c crashCase) {
			if !seen[c] {
				seen[c] = true
				cases = append(cases, c)
			}
		}
		var flat []crashCase // one entry per (workload, point), n filled when drawn
		for w, t := range traces {
			for _, p := range points {
				if t[p] > 0 {
					flat = append(flat, crashCase{w, p, t[p]})
				}
			}
		}
		for _, p := range points { // every point at least once
			w := byPoint[p][rc.Intn(len(byPoint[p]))]
			add(crashCase{w, p, 1 + rc.Intn(traces[w][p])})
		}
		for tries := 0; len(cases) < budget && tries < 5000; tries++ {
			if tries%2 == 0 { // uniform over points: rare points get several n
				p := points[rc.Intn(len(points))]
				w := byPoint[p][rc.Intn(len(byPoint[p]))]
				add(crashCase{w, p, 1 + rc.Intn(traces[w][p])})
				continue
			}
			x := rc.Intn(total) // weighted by hit count
			for _, f := range flat {
				if x < f.n {
					add(crashCase{f.w, f.point, x + 1})
					break
				}
				x -= f.n
			}
		}
	}
	crs := make([]*vlib.Rand, len(cases))
	for i := range cases {
		crs[i] = rc.Fork(fmt.Sprint("case", i))
	}
	vlib.Parallel(len(cases), 16, func(i int) {
		m.crashRun(i, wseeds[cases[i].w], cnops, cases[i], crs[i])
	})
	if run.Violations() == 0 {
		if run.Get("crash_runs") < int64(len(cases))*8/10 || len(cases) == 0 {
			run.Inconclusive("only %d of %d planned crash runs died at their crash point", run.Get("crash_runs"), len(cases))
			fmt.Println("BROKEN property=C19 crash enumeration observed too little")
			finishExit2(finish)
		}
	}
	finish()
}

func finishExit2(finish func()) {
	os.RemoveAll(tmpRoot)
	os.Exit(2)
}
