package chainsim

import (
	"fmt"
	"os"
	"time"

	"verif/lib/vlib"
	"verif/ref/refchain"
)

// Sim couples one gocoin node, the reference chain and the generator.
type Sim struct {
	N   *Node
	Ref *refchain.Chain
	G   *Gen
	Run *vlib.Run
	Log []string // delivery journal (block hash, verdicts) for witnesses

	CompareUTXOEvery int // 1 = after every delivery
	deliveries       int
	Quiet            bool
	// AfterOffer, when set, runs after every successful Offer (extra oracle of the monitor using the Sim);
	// returning false makes Offer report failure.
	AfterOffer func(b *refchain.Block) bool
	// BeforeNodeDeliver, when set, runs immediately before the block is handed to the node (after the
	// reference has processed it) - used to start a snapshot save right before a commit.
	BeforeNodeDeliver func()
	// XCheckEvery: every n-th generated input (and every input built to be invalid) is verified by the
	// independent script interpreter refscript and must match the generator's intent (0 = off).
	XCheckEvery int
}

func NewSim(run *vlib.Run, r *vlib.Rand, p refchain.Params, dir string, o NodeOpts) *Sim {
	ref := refchain.NewChain(p, func() int64 { return time.Now().Unix() })
	s := &Sim{N: OpenNode(dir, p, o), Ref: ref, Run: run, CompareUTXOEvery: 1, XCheckEvery: 3}
	s.G = NewGen(r, p, ref)
	return s
}

// Offer delivers the block to both, compares verdict class, tip and UTXO set.
// family names the generator family (used in violation classes and evidence).
// Returns the reference result and whether everything agreed.
func (s *Sim) Offer(b *refchain.Block, family string) (refchain.Result, DeliverResult, bool) {
	raw := b.Serialize()
	return s.OfferRaw(b, raw, family)
}

func (s *Sim) OfferRaw(b *refchain.Block, raw []byte, family string) (refchain.Result, DeliverResult, bool) {
	s.deliveries++
	if s.XCheckEvery > 0 && b.Prev == s.Ref.Tip.Hash {
		if d, n := CrossCheckScripts(s.N.P, b, s.Ref.Tip.Height+1, s.Ref.Utxo, s.XCheckEvery); d != "" {
			s.Run.Inconclusive("generator ground truth vs refscript (%s): %s", family, d)
			return refchain.Result{}, DeliverResult{}, false
		} else {
			s.Run.Count("inputs_cross_checked_by_refscript", int64(n))
		}
	}
	rr := s.Ref.Deliver(b)
	if s.BeforeNodeDeliver != nil {
		s.BeforeNodeDeliver()
	}
	gr := s.N.Deliver(raw)
	s.Log = append(s.Log, fmt.Sprintf("%d %s %s ref=%s/%s node=%s/%s", s.deliveries, family, b.Hash(), rr.Stage, rr.Reason, gr.Stage, gr.Err))
	if len(s.Log) > 400 {
		s.Log = s.Log[len(s.Log)-400:]
	}
	ok := true
	wit := func() map[string]interface{} {
		return map[string]interface{}{"family": family, "block_hex": vlib.Hex(raw), "ref": rr.Stage + "/" + rr.Reason,
			"node": gr.Stage + "/" + gr.Err, "journal_tail": tail(s.Log, 40), "params": fmt.Sprintf("%+v", s.N.P)}
	}
	if gr.Stage == "panic" {
		s.Run.Violation("panic/"+family, "node panicked while processing a block: "+gr.Err, wit())
		return rr, gr, false
	}
	if rr.Stage != "duplicate" && (rr.Stage == "check-refused" || rr.Stage == "orphan") && gr.Stage == "ok" {
		// the node stored (not connected) a block the rules refuse before connection; harmless by itself,
		// becomes a tip mismatch if it ever gets connected. Counted for the evidence.
		s.Run.Inc("node_stored_block_refused_by_reference")
	}
	// tip
	th, _ := s.N.Tip()
	if th != s.Ref.Tip.Hash {
		why := rr.Reason
		if why == "" {
			why = "tip"
		}
		w := wit()
		w["reference_blocks_found_invalid"] = s.Ref.InvalidBlocks()
		var anc []string
		for x, k := s.N.Ch.LastBlock(), 0; x != nil && k < 8; x, k = x.Parent, k+1 {
			anc = append(anc, fmt.Sprintf("%s h=%d", x.BlockHash.String(), x.Height))
		}
		w["node_tip_and_its_ancestors"] = anc
		s.Run.Violation("tip-mismatch/"+why+"/"+family, fmt.Sprintf("tip differs after delivery: node %s reference %s (height %d)", th, s.Ref.Tip.Hash, s.Ref.Tip.Height), w)
		return rr, gr, false
	}
	if s.CompareUTXOEvery > 0 && s.deliveries%s.CompareUTXOEvery == 0 {
		if d := DiffNodeUTXO(s.N.DumpUTXO(), s.Ref.Utxo); d != "" {
			w := wit()
			w["utxo_diff"] = d
			s.Run.Violation("utxo-mismatch/"+rr.Stage+"/"+family, "UTXO set differs from the reference after delivery: "+d, w)
			return rr, gr, false
		}
		s.Run.Inc("utxo_dumps_compared")
	}
	s.Run.Inc("deliveries")
	s.Run.Distinct("chain_states_compared", th, len(s.Ref.Utxo))
	s.Run.Inc("family/" + family)
	s.Run.Inc("ref_stage/" + rr.Stage)
	if rr.Reason != "" {
		s.Run.Distinct("reject_reasons", rr.Reason)
		s.Run.Inc("reason/" + rr.Reason)
	}
	if ok && s.AfterOffer != nil && !s.AfterOffer(b) {
		ok = false
	}
	return rr, gr, ok
}

func tail(l []string, n int) []string {
	if len(l) > n {
		return l[len(l)-n:]
	}
	return l
}

func (s *Sim) Close() { s.N.Close() }

// QuietStdout redirects the process's stdout (gocoin prints progress lines) to /dev/null and
// returns the original for the harness's own output.
func QuietStdout() *os.File {
	orig := os.Stdout
	if f, err := os.OpenFile("/dev/null", os.O_WRONLY, 0); err == nil {
		os.Stdout = f
	}
	return orig
}
