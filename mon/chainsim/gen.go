package chainsim

import (
	"crypto/sha256"
	"encoding/binary"
	"fmt"
	"math/big"
	"os"
	"time"

	"github.com/piotrnar/gocoin/lib/btc"
	"verif/lib/vlib"
	"verif/ref/refchain"
)

type Kind int

const (
	KTrue Kind = iota
	KP2SHTrue
	KP2WSHTrue
	KP2PKH
	KP2WPKH
	KOpReturn
	KOther
)

type key struct {
	priv []byte
	pub  []byte
	pkh  [20]byte
}

// Gen builds blocks and transactions on top of reference-chain nodes.
type Gen struct {
	R      *vlib.Rand
	P      refchain.Params
	Ref    *refchain.Chain
	views  map[refchain.Hash]refchain.UTXO
	keys   []key
	extra  uint64
	Blocks map[refchain.Hash]*refchain.Block // every block ever built (by hash)

	scrTrue, scrP2SHTrue, scrP2WSHTrue []byte
	KeepViews                          bool
	// NextGap, when non-zero, is the time distance to the parent used by the next Build with an
	// automatic timestamp (then reset): lets tree workloads mix testnet minimum-difficulty blocks
	// (gap > 20 min) with real-difficulty ones.
	NextGap uint32
}

func DefaultParams(seed uint64, testnet bool) refchain.Params {
	var g refchain.Hash
	h := sha256.Sum256([]byte(fmt.Sprintf("verif-genesis-%d", seed)))
	copy(g[:], h[:])
	g[0] = 0x11
	if testnet {
		g[0] = 0x43 // gocoin: testnet3 rule set (20-minute min-difficulty rule)
		g[1] = 0x00
	}
	return refchain.Params{
		PowLimitBits: 0x207fffff,
		GenesisHash:  g,
		GenesisTime:  1750000000, // mid-2025: well in the past of any wall clock this runs under
		BIP34:        5, BIP66: 8, BIP65: 11,
		CSV: 14, Segwit: 17, Taproot: 20,
		MinDiffBlocks: testnet,
		BIP16Time:     1333238400,
	}
}

func NewGen(r *vlib.Rand, p refchain.Params, ref *refchain.Chain) *Gen {
	btc.EcdsaSignWithRFC6979 = true
	g := &Gen{R: r, P: p, Ref: ref, views: map[refchain.Hash]refchain.UTXO{}, Blocks: map[refchain.Hash]*refchain.Block{}, KeepViews: true}
	g.views[p.GenesisHash] = refchain.UTXO{}
	for i := 0; i < 6; i++ {
		k := key{priv: r.Bytes(32)}
		k.priv[0] &= 0x7f
		k.priv[31] |= 1
		k.pub = btc.PublicFromPrivate(k.priv, true)
		k.pkh = btc.Rimp160AfterSha256(k.pub)
		g.keys = append(g.keys, k)
	}
	g.scrTrue = []byte{0x51}
	h160 := btc.Rimp160AfterSha256(g.scrTrue)
	g.scrP2SHTrue = append(append([]byte{0xa9, 0x14}, h160[:]...), 0x87)
	s := sha256.Sum256(g.scrTrue)
	g.scrP2WSHTrue = append([]byte{0x00, 0x20}, s[:]...)
	return g
}

func (g *Gen) ScriptOf(k Kind, r *vlib.Rand) []byte {
	switch k {
	case KTrue:
		return g.scrTrue
	case KP2SHTrue:
		return g.scrP2SHTrue
	case KP2WSHTrue:
		return g.scrP2WSHTrue
	case KP2PKH:
		ky := g.keys[r.Intn(len(g.keys))]
		return append(append([]byte{0x76, 0xa9, 0x14}, ky.pkh[:]...), 0x88, 0xac)
	case KP2WPKH:
		ky := g.keys[r.Intn(len(g.keys))]
		return append([]byte{0x00, 0x14}, ky.pkh[:]...)
	case KOpReturn:
		return append([]byte{0x6a, 0x04}, r.Bytes(4)...)
	}
	// something nobody can spend here: a random P2PKH
	return append(append([]byte{0x76, 0xa9, 0x14}, r.Bytes(20)...), 0x88, 0xac)
}

func (g *Gen) KindOf(s []byte) (Kind, *key) {
	switch {
	case len(s) == 1 && s[0] == 0x51:
		return KTrue, nil
	case string(s) == string(g.scrP2SHTrue):
		return KP2SHTrue, nil
	case string(s) == string(g.scrP2WSHTrue):
		return KP2WSHTrue, nil
	case len(s) == 25 && s[0] == 0x76 && s[1] == 0xa9 && s[2] == 0x14 && s[23] == 0x88 && s[24] == 0xac:
		for i := range g.keys {
			if string(s[3:23]) == string(g.keys[i].pkh[:]) {
				return KP2PKH, &g.keys[i]
			}
		}
	case len(s) == 22 && s[0] == 0 && s[1] == 0x14:
		for i := range g.keys {
			if string(s[2:]) == string(g.keys[i].pkh[:]) {
				return KP2WPKH, &g.keys[i]
			}
		}
	case len(s) > 0 && s[0] == 0x6a:
		return KOpReturn, nil
	}
	return KOther, nil
}

// View returns the UTXO set after node n (nil when the chain of n does not validate).
func (g *Gen) View(n *refchain.Node) refchain.UTXO {
	if v, ok := g.views[n.Hash]; ok {
		return v
	}
	if n.Parent == nil {
		return refchain.UTXO{}
	}
	pv := g.View(n.Parent)
	if pv == nil {
		return nil
	}
	sp, cr, r := g.P.Connect(n.Block, n, pv)
	if r != "" {
		g.views[n.Hash] = nil
		return nil
	}
	v := make(refchain.UTXO, len(pv)+len(cr))
	for k, c := range pv {
		v[k] = c
	}
	for _, o := range sp {
		delete(v, o)
	}
	for k, c := range cr {
		v[k] = c
	}
	if g.KeepViews {
		g.views[n.Hash] = v
	}
	return v
}

func (g *Gen) DropView(h refchain.Hash) { delete(g.views, h) }

// Spendable lists outpoints of view the generator can spend in a block at `height`.
func (g *Gen) Spendable(view refchain.UTXO, height uint32, segwit bool) []refchain.OutPoint {
	var l []refchain.OutPoint
	for op, c := range view {
		if c.Coinbase && height-c.Height < refchain.CoinbaseMaturity {
			continue
		}
		k, _ := g.KindOf(c.Script)
		if k == KOpReturn || k == KOther {
			continue
		}
		if !segwit && (k == KP2WSHTrue || k == KP2WPKH) {
			continue // pre-activation spends of witness programs are produced only by a dedicated probe
		}
		l = append(l, op)
	}
	// deterministic order (map iteration is random): sort by hash, idx
	sortOutPoints(l)
	return l
}

func sortOutPoints(l []refchain.OutPoint) {
	for i := 1; i < len(l); i++ {
		for j := i; j > 0 && lessOP(l[j], l[j-1]); j-- {
			l[j], l[j-1] = l[j-1], l[j]
		}
	}
}
func lessOP(a, b refchain.OutPoint) bool {
	for i := 0; i < 32; i++ {
		if a.Hash[i] != b.Hash[i] {
			return a.Hash[i] < b.Hash[i]
		}
	}
	return a.Idx < b.Idx
}

// SignTx fills scriptSig / witness of every input so that it is valid (construction uses gocoin's
// own signer; validity by construction is part of the trusted base and tied to C01-C03).
// bad = index of an input to make invalid (-1: none).
func (g *Gen) SignTx(t *refchain.Tx, coins []refchain.Coin, bad int) {
	var gtx *btc.Tx
	needSig := false
	for i := range t.In {
		k, _ := g.KindOf(coins[i].Script)
		if k == KP2PKH || k == KP2WPKH {
			needSig = true
		}
		switch k {
		case KTrue:
			t.In[i].ScriptSig = nil
		case KP2SHTrue:
			t.In[i].ScriptSig = []byte{0x01, 0x51}
			if i == bad {
				t.In[i].ScriptSig = []byte{0x01, 0x52}
			}
		case KP2WSHTrue:
			t.In[i].ScriptSig = nil
			t.In[i].Witness = [][]byte{{0x51}}
			if i == bad {
				t.In[i].Witness = [][]byte{{0x52}}
			}
		}
	}
	if needSig {
		// witness placeholders must exist before hashing legacy inputs? (legacy sighash ignores
		// witnesses; BIP143 commits to prevouts/sequences/outputs only) - order is irrelevant.
		raw := t.Serialize(false)
		gtx, _ = btc.NewTx(raw)
		if gtx == nil {
			panic("chainsim: generated tx does not parse")
		}
		gtx.AllocVerVars()
		for i := range t.In {
			k, ky := g.KindOf(coins[i].Script)
			switch k {
			case KP2PKH:
				if er := gtx.Sign(i, coins[i].Script, btc.SIGHASH_ALL, ky.pub, ky.priv); er != nil {
					panic(er)
				}
				t.In[i].ScriptSig = append([]byte{}, gtx.TxIn[i].ScriptSig...)
				if os.Getenv("VERIF_DEBUG_SIGN") != "" {
					h := gtx.SignatureHash(coins[i].Script, i, 1)
					ss := t.In[i].ScriptSig
					sg := ss[1:int(ss[0])]
					fmt.Printf("SIGNDBG prev=%x:%d sighash=%x verify=%v priv=%x pub=%x sig=%x\n", t.In[i].Prev.Hash[:4], t.In[i].Prev.Idx, h, btc.EcdsaVerify(ky.pub, sg, h), ky.priv, ky.pub, sg)
				}
				if i == bad {
					t.In[i].ScriptSig[10] ^= 0x55 // inside r
				}
			case KP2WPKH:
				sc := append(append([]byte{0x76, 0xa9, 0x14}, ky.pkh[:]...), 0x88, 0xac)
				if er := gtx.SignWitness(i, sc, coins[i].Value, btc.SIGHASH_ALL, ky.pub, ky.priv); er != nil {
					panic(er)
				}
				w := gtx.SegWit[i]
				t.In[i].Witness = [][]byte{append([]byte{}, w[0]...), append([]byte{}, w[1]...)}
				if i == bad {
					t.In[i].Witness[0][10] ^= 0x55
				}
			}
		}
	}
	if bad >= 0 {
		k, _ := g.KindOf(coins[bad].Script)
		if k == KTrue {
			// make an OP_TRUE spend fail: scriptSig leaves a false item on top ... the pubkey script
			// OP_TRUE pushes 1 afterwards, so instead end the scriptSig with OP_RETURN-free failure:
			t.In[bad].ScriptSig = []byte{0x00, 0x69} // OP_0 OP_VERIFY
		}
		t.ScriptInvalid = make([]bool, len(t.In))
		t.ScriptInvalid[bad] = true
	}
	t.Invalidate()
}

// RandomTx spends 1..3 coins from avail (removing them) and creates 1..4 outputs.
func (g *Gen) RandomTx(avail *[]refchain.OutPoint, lookup func(refchain.OutPoint) refchain.Coin, segwit bool, bad bool) *refchain.Tx {
	r := g.R
	n := 1 + r.Intn(3)
	if n > len(*avail) {
		n = len(*avail)
	}
	if n == 0 {
		return nil
	}
	t := &refchain.Tx{Version: 1 + uint32(r.Intn(2)), LockTime: 0}
	var coins []refchain.Coin
	var sum uint64
	for i := 0; i < n; i++ {
		j := r.Intn(len(*avail))
		op := (*avail)[j]
		(*avail)[j] = (*avail)[len(*avail)-1]
		*avail = (*avail)[:len(*avail)-1]
		c := lookup(op)
		coins = append(coins, c)
		sum += c.Value
		// sequence with the BIP68 disable bit so that relative locks never apply by accident
		t.In = append(t.In, refchain.TxIn{Prev: op, Sequence: 0xffffffff - uint32(r.Intn(3))})
	}
	m := 1 + r.Intn(4)
	fee := uint64(r.Intn(2000))
	if fee > sum {
		fee = 0
	}
	rest := sum - fee
	for i := 0; i < m; i++ {
		v := rest
		if i < m-1 {
			if r.Intn(6) != 0 {
				v = rest / uint64(2+r.Intn(3))
			}
			// round amounts (d x 10^e: what the compressed UTXO amount codec treats specially), up to whole
			// multiples of 10 BTC when several coinbases are merged; the remainder goes to the later outputs
			if v > 0 && r.Intn(3) == 0 {
				e, p10 := 0, uint64(1)
				for p10 <= v/10 {
					p10 *= 10
					e++
				}
				for k := r.Intn(e + 1); k > 0; k-- {
					p10 /= 10
				}
				v -= v % p10
			}
		}
		rest -= v
		kinds := []Kind{KTrue, KTrue, KP2SHTrue, KP2PKH, KP2PKH, KOpReturn, KOther}
		if segwit {
			kinds = append(kinds, KP2WSHTrue, KP2WPKH, KP2WPKH)
		}
		t.Out = append(t.Out, refchain.TxOut{Value: v, Script: g.ScriptOf(kinds[r.Intn(len(kinds))], r)})
	}
	bi := -1
	if bad {
		bi = r.Intn(len(t.In))
	}
	g.SignTx(t, coins, bi)
	return t
}

// BlockSpec describes a block to build; zero values mean "valid default".
type BlockSpec struct {
	Parent  *refchain.Node
	Time    uint32
	Bits    uint32
	Version uint32
	Txs     []*refchain.Tx // non-coinbase transactions (already signed)

	CoinbaseScript []byte           // override (default: BIP34 prefix + extranonce)
	CoinbaseDelta  int64            // added to the claimed amount (default claim = subsidy + fees)
	CoinbaseOuts   []refchain.TxOut // override outputs entirely
	CoinbaseKind   Kind
	Fees           uint64 // fees of Txs (caller computes)

	NoCommitment    bool // do not add a witness commitment even if needed
	ForceCommitment bool // add one even if no tx has a witness
	WrongCommitment bool
	TwoCommitments  bool // first one wrong, last one right (last wins)
	NonceLen        int  // default 32
	DupTail         int
	BadMerkle       bool
	FailPoW         bool
	Tweak           func(b *refchain.Block) // arbitrary final change before merkle/mining
}

var commitHdr = []byte{0x6a, 0x24, 0xaa, 0x21, 0xa9, 0xed}

func (g *Gen) Build(s BlockSpec) *refchain.Block {
	p := s.Parent
	height := p.Height + 1
	b := &refchain.Block{Version: 4, Prev: p.Hash}
	if s.Version != 0 {
		b.Version = s.Version
	}
	b.Time = s.Time
	if b.Time == 0 {
		b.Time = p.Time + 600
		if g.NextGap != 0 {
			b.Time = p.Time + g.NextGap
			g.NextGap = 0
		}
		if int64(b.Time) > time.Now().Unix()+3000 {
			b.Time = p.MTP() + 1 // parent is future-dated (clock-rule probe): stay below the two-hour limit
		}
		if m := p.MTP(); b.Time <= m {
			b.Time = m + 1
		}
	}
	b.Bits = s.Bits
	if b.Bits == 0 {
		b.Bits = g.P.RequiredBits(p, b.Time)
	}
	// coinbase
	g.extra++
	cb := &refchain.Tx{Version: 1, LockTime: 0}
	scr := s.CoinbaseScript
	if scr == nil {
		scr = append([]byte{}, refchain.BIP34Prefix(height)...)
		var en [8]byte
		binary.LittleEndian.PutUint64(en[:], g.extra)
		scr = append(scr, 0x08)
		scr = append(scr, en[:]...)
	}
	cb.In = []refchain.TxIn{{Prev: refchain.OutPoint{Idx: 0xffffffff}, ScriptSig: scr, Sequence: 0xffffffff}}
	if s.CoinbaseOuts != nil {
		cb.Out = s.CoinbaseOuts
	} else {
		claim := int64(refchain.Subsidy(height)+s.Fees) + s.CoinbaseDelta
		cb.Out = []refchain.TxOut{{Value: uint64(claim), Script: g.ScriptOf(s.CoinbaseKind, g.R)}}
	}
	b.Txs = append([]*refchain.Tx{cb}, s.Txs...)
	b.DupTail = s.DupTail
	segwit := g.P.Segwit != 0 && height >= g.P.Segwit
	anyWit := false
	for _, t := range s.Txs {
		if t.HasWitness() {
			anyWit = true
		}
	}
	if ((anyWit || (segwit && g.R.Intn(3) == 0)) && !s.NoCommitment) || s.ForceCommitment {
		nl := s.NonceLen
		if nl == 0 {
			nl = 32
		}
		nonce := g.R.Bytes(nl)
		cb.In[0].Witness = [][]byte{nonce}
		wr := b.WitnessMerkle()
		c := refchain.DSHA(append(append([]byte{}, wr[:]...), nonce...))
		if s.WrongCommitment {
			c[5] ^= 1
		}
		if s.TwoCommitments {
			bad := c
			bad[7] ^= 0x80
			cb.Out = append(cb.Out, refchain.TxOut{Value: 0, Script: append(append([]byte{}, commitHdr...), bad[:]...)})
		}
		cb.Out = append(cb.Out, refchain.TxOut{Value: 0, Script: append(append([]byte{}, commitHdr...), c[:]...)})
		cb.Invalidate()
	}
	if s.Tweak != nil {
		s.Tweak(b)
		for _, t := range b.Txs {
			t.Invalidate()
		}
	}
	b.Merkle, _ = b.ComputeMerkle()
	if s.BadMerkle {
		b.Merkle[3] ^= 0x10
	}
	g.Mine(b, !s.FailPoW)
	g.Blocks[b.Hash()] = b
	return b
}

// Mine grinds the nonce until the hash meets (want=true) or misses (want=false) the target in b.Bits.
func (g *Gen) Mine(b *refchain.Block, want bool) {
	t, neg, over := refchain.DecodeCompact(b.Bits)
	usable := !neg && !over && t.Sign() > 0
	for n := uint32(0); ; n++ {
		b.Nonce = n
		if !usable {
			return
		}
		ok := hashLE(b.Hash(), t)
		if ok == want {
			return
		}
		if n == 1<<26 {
			panic("chainsim: cannot mine")
		}
	}
}

// RandomBlock builds a valid block with up to maxTx random transactions on top of parent.
func (g *Gen) RandomBlock(parent *refchain.Node, maxTx int) *refchain.Block {
	height := parent.Height + 1
	segwit := g.P.Segwit != 0 && height >= g.P.Segwit
	view := g.View(parent)
	if view == nil || maxTx == 0 {
		return g.Build(BlockSpec{Parent: parent, CoinbaseKind: g.cbKind(segwit)})
	}
	avail := g.Spendable(view, height, segwit)
	local := map[refchain.OutPoint]refchain.Coin{}
	lookup := func(o refchain.OutPoint) refchain.Coin {
		if c, ok := local[o]; ok {
			return c
		}
		return view[o]
	}
	var txs []*refchain.Tx
	var fees uint64
	n := g.R.Intn(maxTx + 1)
	for i := 0; i < n && len(avail) > 0; i++ {
		t := g.RandomTx(&avail, lookup, segwit, false)
		if t == nil {
			break
		}
		var in, out uint64
		for _, x := range t.In {
			in += lookup(x.Prev).Value
		}
		id := t.TxID()
		for oi, o := range t.Out {
			out += o.Value
			c := refchain.Coin{Value: o.Value, Script: o.Script, Height: height}
			op := refchain.OutPoint{Hash: id, Idx: uint32(oi)}
			local[op] = c
			if k, _ := g.KindOf(o.Script); k != KOpReturn && k != KOther && (segwit || (k != KP2WSHTrue && k != KP2WPKH)) && g.R.Intn(2) == 0 {
				avail = append(avail, op) // allow in-block chains
			}
		}
		fees += in - out
		txs = append(txs, t)
	}
	return g.Build(BlockSpec{Parent: parent, Txs: txs, Fees: fees, CoinbaseKind: g.cbKind(segwit)})
}

func (g *Gen) cbKind(segwit bool) Kind {
	k := []Kind{KTrue, KTrue, KP2SHTrue, KP2PKH}
	if segwit {
		k = append(k, KP2WSHTrue, KP2WPKH)
	}
	return k[g.R.Intn(len(k))]
}

func hashLE(h refchain.Hash, t interface{ Cmp(*big.Int) int }) bool {
	return t.Cmp(refchain.HashToBig(h)) >= 0
}

// Spend builds and signs a transaction spending exactly the given coins.
// seqs may be nil (all 0xffffffff). bad = input index to invalidate or -1.
func (g *Gen) Spend(ops []refchain.OutPoint, coins []refchain.Coin, outs []refchain.TxOut, version, locktime uint32, seqs []uint32, bad int) *refchain.Tx {
	t := &refchain.Tx{Version: version, LockTime: locktime, Out: outs}
	for i, op := range ops {
		sq := uint32(0xffffffff)
		if seqs != nil {
			sq = seqs[i]
		}
		t.In = append(t.In, refchain.TxIn{Prev: op, Sequence: sq})
	}
	g.SignTx(t, coins, bad)
	return t
}

// OutTrue is a convenience output paying v to OP_TRUE.
func (g *Gen) OutTrue(v uint64) refchain.TxOut { return refchain.TxOut{Value: v, Script: g.scrTrue} }

// PlanNode creates a structural node (no validity judgement) for a block built on parent, so that
// further blocks can be built on top of it before/independently of any delivery.
func (g *Gen) PlanNode(b *refchain.Block, parent *refchain.Node) *refchain.Node {
	return &refchain.Node{Hash: b.Hash(), Parent: parent, Height: parent.Height + 1, Time: b.Time, Bits: b.Bits,
		Version: b.Version, Block: b, Work: new(big.Int).Add(parent.Work, refchain.BlockWork(b.Bits))}
}
