// Package chainsim is the shared chain workload machinery of the C04/C05/C06/C07/C11/C17 monitors:
// a wrapper that drives the real gocoin chain code in a regtest-like configuration (public API and
// public fields only), a block/transaction generator, and the comparison of the node's observable
// state (tip, UTXO dump) with the independent reference model /verif/ref/refchain.
package chainsim

import (
	"bytes"
	"fmt"
	"os"
	"sort"
	"strings"
	"verif/ref/refec"

	"github.com/piotrnar/gocoin/lib/btc"
	"github.com/piotrnar/gocoin/lib/chain"
	"github.com/piotrnar/gocoin/lib/utxo"
	"verif/ref/refchain"
)

// Node wraps one gocoin chain instance on a data directory.
type Node struct {
	Ch   *chain.Chain
	Dir  string
	P    refchain.Params
	Opts NodeOpts
	hf   *headerFirst // state of the client-style delivery (NodeOpts.HeaderFirst)
}

// PurgeUnspendable mirrors utxo.UTXO_PURGE_UNSPENDABLE (what a freshly configured client runs with: its default
// config file sets Memory.PurgeUnspendableUTXO): the node keeps no output that can never be spent. SetPurge switches the
// library variable and the comparison: the reference keeps every output, DiffUTXO then ignores the unspendable ones on the
// reference side (and still reports them as "extra" if the node holds one).
var PurgeUnspendable bool

func SetPurge(on bool) {
	PurgeUnspendable = on
	utxo.UTXO_PURGE_UNSPENDABLE = on
}

func init() {
	if os.Getenv("VERIF_PURGE") == "1" {
		SetPurge(true)
	}
}

// refUnspendable: OP_RETURN first, longer than 10,000 bytes, or "<65-byte key starting with 04> OP_CHECKSIG" whose key
// is not a point on the curve (judged by refec) - the outputs gocoin's purge option drops.
func RefUnspendable(scr []byte) bool { return refUnspendable(scr) }

func refUnspendable(scr []byte) bool {
	if len(scr) > 0 && scr[0] == 0x6a {
		return true
	}
	if len(scr) > 10000 {
		return true
	}
	if len(scr) == 67 && scr[0] == 65 && scr[66] == 0xac && scr[1] == 0x04 {
		if _, why := refec.ParsePubKey(scr[1:66]); why != "" {
			return true
		}
	}
	return false
}

// PoisonOnFree makes lib/utxo's record memory behave like the client's custom heap as far as life times go: records are
// allocated through utxo.Memory_Malloc and every byte of a record handed to utxo.Memory_Free is overwritten (0xDD)
// at once. On the default Go heap a read after Memory_Free goes unnoticed; here it yields poisoned data (and, in a -race
// build, a report when another goroutine does the reading).
func PoisonOnFree() {
	utxo.Memory_Malloc = func(n int) *[]byte {
		b := make([]byte, n)
		return &b
	}
	utxo.Memory_Free = func(p *[]byte) {
		b := *p
		for i := range b {
			b[i] = 0xDD
		}
	}
}

func init() {
	if os.Getenv("VERIF_POISON_FREE") == "1" {
		PoisonOnFree()
	}
}

// UnwindBufLen, when non-zero, replaces the library's undo window (UnspentDB.UnwindBufLen, default 2560 blocks) in every
// node opened afterwards: undo files older than the window are cleaned up when a block is connected, so a window of
// 100..160 puts that clean-up (and its file-name patterns) inside the heights the generated histories reach.
var UnwindBufLen uint32

type NodeOpts struct {
	CompressUTXO bool
	DoNotRescan  bool
	BDB          *chain.BlockDBOpts
	Callbacks    *chain.NewChanOpts // optional: BlockMinedCB etc. (copied)
	// HeaderFirst: blocks reach the chain the way the client hands them over (client/network/hdrs.go ProcessNewHeader,
	// client/network/data.go netBlockReceived, client/main.go HandleNetBlock / LocalAcceptBlock) instead of through
	// CheckBlock + AcceptBlock: the header enters the block tree first, the body is checked on that same btc.Block object
	// (a corrupt copy is discarded and the object waits for the next copy), then CommitBlock.
	HeaderFirst bool
}

// ApplyParams puts the regtest-like consensus numbers into the public Consensus fields.
func ApplyParams(ch *chain.Chain, p refchain.Params) {
	ch.Consensus.MaxPOWBits = p.PowLimitBits
	ch.Consensus.MaxPOWValue = btc.SetCompact(p.PowLimitBits)
	ch.Consensus.GensisTimestamp = p.GenesisTime
	ch.Consensus.BIP34Height = p.BIP34
	ch.Consensus.BIP65Height = p.BIP65
	ch.Consensus.BIP66Height = p.BIP66
	ch.Consensus.Enforce_CSV = p.CSV
	ch.Consensus.Enforce_SEGWIT = p.Segwit
	ch.Consensus.Enforce_Taproot = p.Taproot
	ch.RebuildGenesisHeader()
}

// OpenNode opens (or creates) a chain in dir. With DoNotRescan=false the library itself re-applies
// blocks found on disk beyond the snapshot.
func OpenNode(dir string, p refchain.Params, o NodeOpts) *Node {
	if dir[len(dir)-1] != '/' {
		dir += "/"
	}
	os.MkdirAll(dir, 0o770)
	opts := &chain.NewChanOpts{}
	if o.Callbacks != nil {
		*opts = *o.Callbacks
	}
	opts.CompressUTXO = o.CompressUTXO
	// The library applies consensus defaults inside NewChainExt and may already replay blocks there
	// (ParseTillBlock) - which needs our parameters. DoNotRescan is therefore always set for the
	// constructor and the re-apply step is done right after the parameters are in place.
	opts.DoNotRescan = true
	g := btc.NewUint256(p.GenesisHash[:])
	ch := chain.NewChainExt(dir, g, false, opts, o.BDB)
	ApplyParams(ch, p)
	if UnwindBufLen != 0 {
		ch.Unspent.UnwindBufLen = UnwindBufLen
	}
	n := &Node{Ch: ch, Dir: dir, P: p, Opts: o}
	if !o.DoNotRescan {
		end, _ := ch.BlockTreeRoot.FindFarthestNode()
		if end.Height > ch.LastBlock().Height {
			// mirrors NewChainExt (library mode)
			if last := ch.LastBlock(); last.FindFirstFather(end) == last {
				ch.ParseTillBlock(end)
			} else {
				ch.MoveToBlock(end)
			}
		}
	}
	return n
}

func (n *Node) Close() { n.Ch.Close() }

func (n *Node) Tip() (h refchain.Hash, height uint32) {
	l := n.Ch.LastBlock()
	copy(h[:], l.BlockHash.Hash[:])
	return h, l.Height
}

// DeliverResult is what the harness observes from the node for one block.
type DeliverResult struct {
	Stage      string // "decode" | "check" | "accept" | "ok"
	Err        string
	MaybeLater bool
}

// Deliver hands raw block bytes to the node the way the library API is meant to be used:
// NewBlock, CheckBlock (under BlockIndexAccess), AcceptBlock.
func (n *Node) Deliver(raw []byte) (res DeliverResult) {
	defer func() {
		if r := recover(); r != nil {
			res = DeliverResult{Stage: "panic", Err: fmt.Sprint(r)}
		}
	}()
	if n.Opts.HeaderFirst {
		return n.deliverHeaderFirst(raw)
	}
	bl, er := btc.NewBlock(raw)
	if er != nil {
		return DeliverResult{Stage: "decode", Err: er.Error()}
	}
	n.Ch.BlockIndexAccess.Lock()
	_, later, er := n.Ch.CheckBlock(bl)
	n.Ch.BlockIndexAccess.Unlock()
	if er != nil {
		return DeliverResult{Stage: "check", Err: er.Error(), MaybeLater: later}
	}
	bl.LastKnownHeight = bl.Height
	if er = n.Ch.AcceptBlock(bl); er != nil {
		return DeliverResult{Stage: "accept", Err: er.Error()}
	}
	return DeliverResult{Stage: "ok"}
}

// DumpUTXO decodes every record of the node's unspent set.
func (n *Node) DumpUTXO() refchain.UTXO {
	u := refchain.UTXO{}
	db := n.Ch.Unspent
	for i := range db.HashMap {
		db.MapMutex[i].RLock()
		for _, v := range db.HashMap[i] {
			rec := utxo.NewUtxoRec(*v)
			for vout, o := range rec.Outs {
				if o == nil {
					continue
				}
				var op refchain.OutPoint
				copy(op.Hash[:], rec.TxID[:])
				op.Idx = uint32(vout)
				u[op] = refchain.Coin{Value: o.Value, Script: append([]byte{}, o.PKScr...), Height: rec.InBlock, Coinbase: rec.Coinbase}
			}
		}
		db.MapMutex[i].RUnlock()
	}
	return u
}

// DiffUTXO returns a human-readable description of the first differences (empty = equal).
// DiffUTXO compares two sets exactly. DiffNodeUTXO compares a set dumped from the node (or parsed from one of its
// snapshots) with the reference set and follows the purge option.
func DiffUTXO(got, want refchain.UTXO) string { return diffUTXO(got, want, false) }

func DiffNodeUTXO(got, want refchain.UTXO) string {
	return diffUTXO(got, want, PurgeUnspendable || PurgedByHand)
}

// PurgedByHand: the operator's "purge" command has been run (UnspentDB.PurgeUnspendable(true)) on a node that does not purge
// by itself: unspendable outputs that existed then are gone, later ones are kept - either is right.
var PurgedByHand bool

func diffUTXO(got, want refchain.UTXO, purge bool) string {
	var diffs []string
	for k, w := range want {
		g, ok := got[k]
		if !ok && purge && refUnspendable(w.Script) {
			continue
		}
		if !ok {
			diffs = append(diffs, fmt.Sprintf("missing %s:%d (value %d height %d)", k.Hash, k.Idx, w.Value, w.Height))
			continue
		}
		if g.Value != w.Value || g.Height != w.Height || g.Coinbase != w.Coinbase || !bytes.Equal(g.Script, w.Script) {
			diffs = append(diffs, fmt.Sprintf("differs %s:%d got{v=%d h=%d cb=%v scr=%x} want{v=%d h=%d cb=%v scr=%x}", k.Hash, k.Idx,
				g.Value, g.Height, g.Coinbase, g.Script, w.Value, w.Height, w.Coinbase, w.Script))
		}
	}
	for k, g := range got {
		if _, ok := want[k]; !ok || (purge && !PurgedByHand && refUnspendable(g.Script)) {
			diffs = append(diffs, fmt.Sprintf("extra %s:%d (value %d height %d)", k.Hash, k.Idx, g.Value, g.Height))
		}
	}
	if len(diffs) == 0 {
		return ""
	}
	sort.Strings(diffs)
	n := len(diffs)
	if n > 6 {
		diffs = diffs[:6]
	}
	return fmt.Sprintf("%d differences: %v", n, diffs)
}

// ---------------------------------------------------------------------------------------------
// client-style delivery

type blockToGet struct { // network.OneBlockToGet
	bl   *btc.Block
	node *chain.BlockTreeNode
}

type headerFirst struct {
	toGet     map[[32]byte]*blockToGet // network.BlocksToGet
	received  map[[32]byte]bool        // network.ReceivedBlocks
	discarded map[[32]byte]bool        // network.DiscardedBlocks
	lastHdr   uint32                   // network.LastCommitedHeader.Height
	nBlocks   int                      // bodies accepted so far
}

func (n *Node) deliverHeaderFirst(raw []byte) DeliverResult {
	if n.hf == nil {
		n.hf = &headerFirst{toGet: map[[32]byte]*blockToGet{}, received: map[[32]byte]bool{}, discarded: map[[32]byte]bool{}}
	}
	hf := n.hf
	if len(raw) < 100 {
		return DeliverResult{Stage: "decode", Err: "ShortBlock"}
	}
	var hash [32]byte
	copy(hash[:], btc.NewSha2Hash(raw[:80]).Hash[:])
	if hf.received[hash] {
		return DeliverResult{Stage: "check", Err: "already received"}
	}
	b2g := hf.toGet[hash]
	if b2g == nil {
		// ProcessNewHeader
		bl, er := btc.NewBlock(append([]byte(nil), raw[:80]...))
		if er != nil {
			return DeliverResult{Stage: "decode", Err: er.Error()}
		}
		if hf.discarded[hash] {
			return DeliverResult{Stage: "check", Err: "header of an already rejected block"}
		}
		n.Ch.BlockIndexAccess.Lock()
		_, later, er := n.Ch.PreCheckBlock(bl)
		if er != nil {
			n.Ch.BlockIndexAccess.Unlock()
			return DeliverResult{Stage: "check", Err: er.Error(), MaybeLater: later}
		}
		node := n.Ch.AcceptHeader(bl)
		n.Ch.BlockIndexAccess.Unlock()
		b2g = &blockToGet{bl: bl, node: node}
		hf.toGet[hash] = b2g
		if node.Height > hf.lastHdr {
			hf.lastHdr = node.Height
		}
	}
	// netBlockReceived
	forget := func() { // discard what was extracted from this copy; the object waits for another one
		b2g.bl.BlockWeight, b2g.bl.TotalInputs = 0, 0
		b2g.bl.TxCount, b2g.bl.TxOffset = 0, 0
		b2g.bl.Txs = nil
	}
	prev := b2g.bl.Raw
	b2g.bl.Raw = raw
	if er := n.Ch.PostCheckBlock(b2g.bl); er != nil {
		if b2g.bl.MerkleRootMatch() && !strings.Contains(er.Error(), "RPC_Result:bad-witness-nonce-size") {
			// "wrongly mined one - give it up"
			delete(hf.toGet, hash)
			n.Ch.DeleteBranch(b2g.node, func(h *btc.Uint256) {
				var x [32]byte
				copy(x[:], h.Hash[:])
				delete(hf.toGet, x)
			})
		} else {
			b2g.bl.Raw = prev
			forget()
		}
		return DeliverResult{Stage: "check", Err: er.Error()}
	}
	// HandleNetBlock
	if b2g.node.Parent != nil {
		var ph [32]byte
		copy(ph[:], b2g.node.Parent.BlockHash.Hash[:])
		if hf.discarded[ph] {
			hf.discarded[hash] = true
			delete(hf.toGet, hash)
			return DeliverResult{Stage: "accept", Err: "parent discarded"}
		}
	}
	if !n.Ch.HasAllParents(b2g.node) {
		// The client would keep the block in its cache until the parent's data arrives. The reference keeps no orphans
		// (a block is delivered again once its parent is there), so the harness hands the body back instead: the
		// object stays in BlocksToGet as if this copy had never arrived.
		b2g.bl.Raw = prev
		forget()
		return DeliverResult{Stage: "check", Err: "parent has no data yet", MaybeLater: true}
	}
	hf.received[hash] = true
	delete(hf.toGet, hash)
	// LocalAcceptBlock
	bl := b2g.bl
	hf.nBlocks++
	if hf.nBlocks%3 == 0 {
		// every third block takes the route of a block the client parks in its disk cache while it is busy
		// (netBlockReceived: raw bytes and the transaction hashes are written out, the parsed block is dropped;
		// HandleNetBlock / get_block_from_disk_cache: NewBlock, BuildTxListExt(false), hashes and BlockExtraInfo restored)
		var hashes []byte
		for _, tx := range bl.Txs {
			hashes = append(hashes, tx.WTxID().Hash[:]...)
			if tx.SegWit != nil {
				hashes = append(hashes, tx.Hash.Hash[:]...)
			}
		}
		bei := bl.BlockExtraInfo
		trusted := bl.Trusted.Get()
		b2, er := btc.NewBlock(append([]byte(nil), bl.Raw...))
		if er != nil {
			return DeliverResult{Stage: "panic", Err: "disk-cache route: NewBlock: " + er.Error()}
		}
		if er = b2.BuildTxListExt(false); er != nil {
			return DeliverResult{Stage: "panic", Err: "disk-cache route: BuildTxListExt(false): " + er.Error()}
		}
		offs := 0
		for _, tx := range b2.Txs {
			copy(tx.WTxID().Hash[:], hashes[offs:])
			offs += 32
			if tx.SegWit != nil {
				copy(tx.Hash.Hash[:], hashes[offs:])
				offs += 32
			}
		}
		b2.BlockExtraInfo = bei
		b2.Trusted.Store(trusted)
		bl = b2
	}
	n.Ch.Unspent.AbortWriting()
	n.Ch.Blocks.BlockAdd(b2g.node.Height, bl)
	bl.LastKnownHeight = hf.lastHdr
	if er := n.Ch.CommitBlock(bl, b2g.node); er != nil {
		var disc func(x *chain.BlockTreeNode)
		disc = func(x *chain.BlockTreeNode) { // network.DiscardBlock
			for _, c := range x.Childs {
				disc(c)
			}
			var h [32]byte
			copy(h[:], x.BlockHash.Hash[:])
			hf.discarded[h] = true
			delete(hf.received, h)
		}
		disc(b2g.node)
		if l := n.Ch.LastBlock().Height; hf.lastHdr < l {
			hf.lastHdr = l
		}
		return DeliverResult{Stage: "accept", Err: er.Error()}
	}
	return DeliverResult{Stage: "ok"}
}
