package chainsim

import (
	"fmt"

	"verif/ref/refchain"
	"verif/ref/refscript"
	"verif/ref/reftx"
)

// consensusFlags maps a height to the script verification flags the consensus rules prescribe
// (with the activation heights of p), in refscript's (= Core's) bit positions.
func consensusFlags(p refchain.Params, height uint32) uint32 {
	f := refscript.FlagP2SH
	if height >= p.BIP66 {
		f |= refscript.FlagDERSig
	}
	if height >= p.BIP65 {
		f |= refscript.FlagCheckLockTimeVerify
	}
	if p.CSV != 0 && height >= p.CSV {
		f |= refscript.FlagCheckSequenceVerify
	}
	if p.Segwit != 0 && height >= p.Segwit {
		f |= refscript.FlagWitness | refscript.FlagNullDummy
	}
	if p.Taproot != 0 && height >= p.Taproot {
		f |= refscript.FlagTaproot
	}
	return f
}

func toRefTx(t *refchain.Tx) *reftx.Tx {
	r := &reftx.Tx{Version: t.Version, LockTime: t.LockTime}
	for _, in := range t.In {
		r.In = append(r.In, reftx.TxIn{PrevHash: in.Prev.Hash, PrevIndex: in.Prev.Idx, ScriptSig: in.ScriptSig, Sequence: in.Sequence, Witness: in.Witness})
	}
	for _, o := range t.Out {
		r.Out = append(r.Out, reftx.TxOut{Value: int64(o.Value), PkScript: o.Script})
	}
	return r
}

// CrossCheckScripts ties the generator's "valid / invalid by construction" ground truth to the
// independent script interpreter /verif/ref/refscript: for (a sample of) the inputs of the block's
// transactions whose previous outputs are known (view = UTXO set of the parent, plus outputs created
// earlier in the block) the reference verdict under the consensus flags of the block's height must
// equal what the generator intended. Returns a description of the first disagreement ("" = none) and
// the number of inputs checked. every = 1 checks all inputs, n checks every n-th one (inputs marked
// invalid are always checked).
func CrossCheckScripts(p refchain.Params, b *refchain.Block, height uint32, view refchain.UTXO, every int) (string, int) {
	flags := consensusFlags(p, height)
	local := map[refchain.OutPoint]refchain.Coin{}
	checked, k := 0, 0
	for ti, t := range b.WireTxs() {
		if ti > 0 {
			var coins []refchain.Coin
			ok := true
			for _, in := range t.In {
				c, found := local[in.Prev]
				if !found {
					c, found = view[in.Prev]
				}
				if !found {
					ok = false
					break
				}
				coins = append(coins, c)
			}
			if ok {
				rt := toRefTx(t)
				spent := make([]reftx.TxOut, len(coins))
				for i, c := range coins {
					spent[i] = reftx.TxOut{Value: int64(c.Value), PkScript: c.Script}
				}
				for i := range t.In {
					want := !(t.ScriptInvalid != nil && t.ScriptInvalid[i])
					k++
					if want && every > 1 && k%every != 0 {
						continue
					}
					got, e := refscript.Verify(t.In[i].ScriptSig, coins[i].Script, t.In[i].Witness, rt, i, int64(coins[i].Value), spent, flags)
					checked++
					if got != want {
						return fmt.Sprintf("tx %d input %d (%s:%d, script %x): generator intended valid=%v, reference interpreter says %v (%v) under flags %#x",
							ti, i, t.In[i].Prev.Hash, t.In[i].Prev.Idx, coins[i].Script, want, got, e, flags), checked
					}
				}
			}
		}
		id := t.TxID()
		for oi, o := range t.Out {
			local[refchain.OutPoint{Hash: id, Idx: uint32(oi)}] = refchain.Coin{Value: o.Value, Script: o.Script, Height: height, Coinbase: ti == 0}
		}
	}
	return "", checked
}
