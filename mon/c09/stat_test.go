package main

import (
	"fmt"
	"sort"
	"testing"
)

func TestBatchStat(t *testing.T) {
	for b := 0; b < 3; b++ {
		cs := genBatch(1, b)
		m := map[string]int{}
		bytes := map[string]int{}
		for _, c := range cs {
			m[c.Fam]++
			bytes[c.Fam] += len(c.Data)
		}
		ks := []string{}
		for k := range m {
			ks = append(ks, k)
		}
		sort.Strings(ks)
		fmt.Println("batch", b, "cases", len(cs))
		for _, k := range ks {
			fmt.Printf("  %-28s %7d  avg %d bytes\n", k, m[k], bytes[k]/m[k])
		}
	}
}
