package main

import (
	"bytes"
	"encoding/binary"
	"fmt"

	"verif/lib/vlib"
	"verif/ref/reftx"
)

// A test case: bytes handed to one decoding entry point.
type tcase struct {
	Kind  byte   // 't' transaction, 'b' block, 'm' merkle list (32-byte hashes)
	Fam   string // generator family
	Field string // wire field that the generator manipulated ("" when none / unknown)
	Slack int    // > 0: the input slice is Data[:len-Slack] with capacity len(Data) (bytes beyond len are the real continuation)
	Data  []byte
}

type field struct {
	Off, Len int
	Name     string
	Count    bool   // a CompactSize count / length field
	Val      uint64 // its value
}

// ---------------------------------------------------------------------------------------------
// layout-recording encoder (generator side; checked against reftx.Serialize by the caller)

type enc struct {
	b      []byte
	fields []field
	pfx    string
}

func (e *enc) raw(name string, p []byte) {
	e.fields = append(e.fields, field{Off: len(e.b), Len: len(p), Name: e.pfx + name})
	e.b = append(e.b, p...)
}
func (e *enc) u32(name string, v uint32) {
	var t [4]byte
	binary.LittleEndian.PutUint32(t[:], v)
	e.raw(name, t[:])
}
func (e *enc) u64(name string, v uint64) {
	var t [8]byte
	binary.LittleEndian.PutUint64(t[:], v)
	e.raw(name, t[:])
}
func (e *enc) cs(name string, v uint64) {
	p := reftx.AppendCompactSize(nil, v)
	e.fields = append(e.fields, field{Off: len(e.b), Len: len(p), Name: e.pfx + name, Count: true, Val: v})
	e.b = append(e.b, p...)
}

func (e *enc) tx(t *reftx.Tx) {
	wit := t.HasWitness()
	e.u32("version", t.Version)
	if wit {
		e.raw("marker", []byte{0})
		e.raw("flag", []byte{1})
	}
	e.cs("vin-count", uint64(len(t.In)))
	for i := range t.In {
		in := &t.In[i]
		e.raw("prevout", reftx.AppendOutPoint(nil, in))
		e.cs("scriptsig-len", uint64(len(in.ScriptSig)))
		e.raw("scriptsig", in.ScriptSig)
		e.u32("sequence", in.Sequence)
	}
	e.cs("vout-count", uint64(len(t.Out)))
	for i := range t.Out {
		e.u64("value", uint64(t.Out[i].Value))
		e.cs("pkscript-len", uint64(len(t.Out[i].PkScript)))
		e.raw("pkscript", t.Out[i].PkScript)
	}
	if wit {
		for i := range t.In {
			w := t.In[i].Witness
			e.cs("witness-count", uint64(len(w)))
			for _, it := range w {
				e.cs("witness-item-len", uint64(len(it)))
				e.raw("witness-item", it)
			}
		}
	}
	e.u32("locktime", t.LockTime)
}

func encodeTx(t *reftx.Tx) ([]byte, []field) {
	var e enc
	e.tx(t)
	if !bytes.Equal(e.b, t.Serialize(true)) {
		panic("generator: layout encoder disagrees with reftx.Serialize")
	}
	return e.b, e.fields
}

func encodeBlock(bl *reftx.Block) ([]byte, []field) {
	var e enc
	e.raw("header", bl.Header.Serialize())
	e.cs("tx-count", uint64(len(bl.Txs)))
	for _, t := range bl.Txs {
		e.pfx = "tx."
		e.tx(t)
	}
	if !bytes.Equal(e.b, bl.Serialize(true)) {
		panic("generator: layout encoder disagrees with reftx.Block.Serialize")
	}
	return e.b, e.fields
}

// ---------------------------------------------------------------------------------------------
// random structures

var lenEdges = []int{0, 1, 2, 33, 75, 76, 107, 252, 253, 254, 255, 256, 520, 521, 1000, 10000}

func randLen(r *vlib.Rand, profile int) int {
	switch profile {
	case 0: // small
		return r.Intn(30)
	case 1: // medium
		if r.Chance(1, 6) {
			return lenEdges[r.Intn(12)]
		}
		return r.Intn(120)
	default:
		switch r.Intn(8) {
		case 0:
			return lenEdges[r.Intn(len(lenEdges))]
		case 1:
			return r.Intn(10001)
		case 2:
			return []int{65535, 65536, 65537}[r.Intn(3)]
		}
		return r.Intn(300)
	}
}

func randCount(r *vlib.Rand, profile int, min int) int {
	switch profile {
	case 0:
		return min + r.Intn(3)
	case 1:
		if r.Chance(1, 8) {
			return min + r.Intn(40)
		}
		return min + r.Intn(5)
	default:
		switch r.Intn(10) {
		case 0:
			return []int{252, 253, 254, 300}[r.Intn(4)]
		case 1:
			return min + r.Intn(40)
		}
		return min + r.Intn(6)
	}
}

// smallTx draws transactions until one encodes to at most max bytes.
func smallTx(r *vlib.Rand, profile, witness, max int) *reftx.Tx {
	for {
		t := randTx(r, profile, witness)
		if t.TotalSize() <= max {
			return t
		}
	}
}

// randTx builds a random transaction with >= 1 input. profile 0 small, 1 medium, 2 big.
func randTx(r *vlib.Rand, profile int, witness int) *reftx.Tx {
	t := &reftx.Tx{Version: r.U32(), LockTime: r.U32()}
	switch r.Intn(4) {
	case 0:
		t.Version = 1
	case 1:
		t.Version = 2
	}
	if r.Bool() {
		t.LockTime = 0
	}
	nin := randCount(r, profile, 1)
	nout := randCount(r, profile, 0)
	big := profile == 2 && r.Chance(1, 3)
	t.In = make([]reftx.TxIn, nin)
	for i := range t.In {
		in := &t.In[i]
		r.Fill(in.PrevHash[:])
		in.PrevIndex = uint32(r.Intn(4))
		if r.Chance(1, 10) {
			in.PrevIndex = r.U32()
		}
		p := profile
		if nin > 40 || (!big && profile == 2) {
			p = 1
		}
		in.ScriptSig = r.Bytes(randLen(r, p))
		in.Sequence = []uint32{0xffffffff, 0xfffffffe, 0, r.U32()}[r.Intn(4)]
	}
	t.Out = make([]reftx.TxOut, nout)
	for i := range t.Out {
		p := profile
		if nout > 40 || (!big && profile == 2) {
			p = 1
		}
		t.Out[i].Value = int64(r.U64() >> uint(r.Intn(64)))
		if r.Chance(1, 30) {
			t.Out[i].Value = -1
		}
		t.Out[i].PkScript = r.Bytes(randLen(r, p))
	}
	w := witness == 1 || (witness == 2 && r.Bool())
	if w {
		any := false
		for i := range t.In {
			if r.Chance(1, 4) {
				continue // empty stack on this input
			}
			n := 1 + r.Intn(3)
			if profile == 2 && r.Chance(1, 20) {
				n = []int{252, 253, 300}[r.Intn(3)]
			}
			st := make([][]byte, n)
			for k := range st {
				p := profile
				if n > 10 || nin > 40 {
					p = 0
				}
				l := randLen(r, p)
				if r.Chance(1, 5) {
					l = 0
				}
				st[k] = r.Bytes(l)
			}
			t.In[i].Witness = st
			any = true
		}
		if !any {
			t.In[0].Witness = [][]byte{r.Bytes(r.Intn(4))}
		}
	}
	return t
}

func randBlock(r *vlib.Rand, ntx int, profile int) *reftx.Block {
	bl := &reftx.Block{}
	bl.Header.Version = int32(r.U32())
	r.Fill(bl.Header.PrevBlock[:])
	bl.Header.Time = r.U32()
	bl.Header.Bits = 0x207fffff
	bl.Header.Nonce = r.U32()
	wit := r.Intn(3)
	for i := 0; i < ntx; i++ {
		t := randTx(r, profile, wit)
		if i == 0 {
			t.In = t.In[:1]
			t.In[0].PrevHash = [32]byte{}
			t.In[0].PrevIndex = 0xffffffff
			if len(t.In[0].ScriptSig) < 2 {
				t.In[0].ScriptSig = []byte{1, 2, 3}
			}
			if t.HasWitness() || r.Bool() && wit != 0 {
				t.In[0].Witness = [][]byte{make([]byte, 32)}
			} else {
				t.In[0].Witness = nil
			}
		} else if r.Chance(1, 15) && i > 1 {
			t = bl.Txs[i-1].Clone() // duplicate neighbours: exercises the Merkle mutation flag
		}
		bl.Txs = append(bl.Txs, t)
	}
	root, _ := bl.TxMerkleRoot()
	bl.Header.MerkleRoot = root
	return bl
}

// ---------------------------------------------------------------------------------------------
// CompactSize forms

// csWider returns the non-minimal encodings of v (up to three).
func csWider(v uint64) [][]byte {
	var out [][]byte
	if v < 253 {
		out = append(out, []byte{253, byte(v), byte(v >> 8)})
	}
	if v <= 0xffff {
		out = append(out, []byte{254, byte(v), byte(v >> 8), byte(v >> 16), byte(v >> 24)})
	}
	if v <= 0xffffffff {
		b := []byte{255}
		out = append(out, binary.LittleEndian.AppendUint64(b, v))
	}
	return out
}

// counts with short bodies. "cheap" values never cost more than a few MiB in gocoin or make it
// refuse through a recovered panic (>= 2^48 entries exceed Go's maximal allocation, >= 2^63 are
// negative as int); "costly" values make gocoin allocate hundreds of MiB or kill the worker with a
// fatal out-of-memory error, so only a sample of them is issued per batch.
var cheapCounts = []uint64{1 << 16, 1<<16 + 1, 1 << 20, 1 << 63, 1<<64 - 1}
var cheapPositive = []uint64{1 << 48, 1 << 62, 1<<63 - 1} // beyond Go's maximal allocation, positive as int
var costlyCounts = []uint64{1 << 24, reftx.MaxSize, reftx.MaxSize + 1, 1 << 28, 1<<31 - 1, 1 << 31, 1<<32 - 1, 1 << 32, 1 << 36, 1 << 40, 1 << 44}

func hugeSample(r *vlib.Rand, costlyNum, costlyDen int) []uint64 {
	out := append([]uint64{}, cheapCounts...)
	if r.Chance(1, 3) {
		out = append(out, cheapPositive[r.Intn(len(cheapPositive))])
	}
	if r.Chance(costlyNum, costlyDen) {
		out = append(out, costlyCounts[r.Intn(len(costlyCounts))])
	}
	return out
}

func splice(b []byte, off, n int, repl []byte) []byte {
	out := make([]byte, 0, len(b)-n+len(repl))
	out = append(out, b[:off]...)
	out = append(out, repl...)
	return append(out, b[off+n:]...)
}

func fieldAt(fields []field, off int) string {
	for _, f := range fields {
		if off >= f.Off && off < f.Off+f.Len {
			return f.Name
		}
	}
	return "?"
}

// csAllForms returns every CompactSize form that can carry v (1, 3, 5 and 9 bytes wide).
func csAllForms(v uint64) [][]byte {
	var out [][]byte
	if v < 253 {
		out = append(out, []byte{byte(v)})
	}
	if v <= 0xffff {
		out = append(out, []byte{253, byte(v), byte(v >> 8)})
	}
	if v <= 0xffffffff {
		out = append(out, []byte{254, byte(v), byte(v >> 8), byte(v >> 16), byte(v >> 24)})
	}
	return append(out, binary.LittleEndian.AppendUint64([]byte{255}, v))
}

// the values at which the minimal width of a CompactSize changes
var csBoundaries = []uint64{0xfc, 0xfd, 0xffff, 0x10000, 0xffffffff, 0x100000000}

// boundaryTx builds a transaction in which the named count / length field really has the value n,
// so that every other byte of the encoding is consistent with it.
func boundaryTx(r *vlib.Rand, name string, n int) *reftx.Tx {
	t := smallTx(r, 0, 1, 300)
	fill := func(k int) []byte {
		b := make([]byte, k)
		r.Fill(b[:min(k, 64)])
		return b
	}
	switch name {
	case "scriptsig-len":
		t.In[len(t.In)-1].ScriptSig = fill(n)
	case "pkscript-len":
		t.Out = append(t.Out, reftx.TxOut{Value: 1, PkScript: fill(n)})
	case "witness-item-len":
		t.In[0].Witness = [][]byte{fill(n), {1}}
	case "witness-count":
		w := make([][]byte, n)
		w[0] = []byte{7}
		t.In[0].Witness = w
	case "vin-count":
		in := make([]reftx.TxIn, n)
		copy(in, t.In[:1])
		for i := 1; i < n; i++ {
			in[i].PrevHash[0], in[i].PrevHash[1], in[i].PrevHash[2] = byte(i), byte(i>>8), byte(i>>16)
			in[i].Sequence = 0xffffffff
		}
		t.In = in
		if len(t.In[0].Witness) == 0 {
			t.In[0].Witness = [][]byte{{1}}
		}
	case "vout-count":
		t.Out = make([]reftx.TxOut, n)
		for i := range t.Out {
			t.Out[i].Value = int64(i)
		}
	}
	return t
}

func min(a, b int) int {
	if a < b {
		return a
	}
	return b
}

// boundaryCases: for a structure whose field `name` really is n, the field re-encoded in every
// CompactSize form (exactly one of them is canonical).
func boundaryCases(r *vlib.Rand, name string, n int, add func(kind byte, fam, fld string, data []byte)) {
	t := boundaryTx(r, name, n)
	if name == "vin-count" || name == "vout-count" {
		// offsets computed directly (the layout of 65536 inputs would cost more than the decoding)
		b := t.Serialize(true)
		off := 6 // version, marker, flag: boundaryTx always carries a witness
		if name == "vout-count" {
			off += reftx.CompactSizeLen(uint64(len(t.In)))
			for i := range t.In {
				off += 36 + reftx.CompactSizeLen(uint64(len(t.In[i].ScriptSig))) + len(t.In[i].ScriptSig) + 4
			}
		}
		cl := reftx.CompactSizeLen(uint64(n))
		if v, k, err := reftx.ReadCompactSize(b[off:]); err != nil || v != uint64(n) || k != cl || !t.HasWitness() {
			panic("generator: boundary count not where expected: " + name)
		}
		for _, form := range csAllForms(uint64(n)) {
			add('t', "cs-boundary", name, splice(b, off, cl, form))
		}
		return
	}
	b, fl := encodeTx(t)
	for _, f := range fl {
		if f.Count && f.Name == name && f.Val == uint64(n) {
			for _, form := range csAllForms(uint64(n)) {
				add('t', "cs-boundary", name, splice(b, f.Off, f.Len, form))
			}
			return
		}
	}
	panic("generator: boundary field not found: " + name)
}

// boundaryBlock: a block that really holds n transactions, its count in every form.
func boundaryBlock(r *vlib.Rand, n int, add func(kind byte, fam, fld string, data []byte)) {
	bl := randBlock(r, 1, 0)
	hdr := bl.Header.Serialize()
	cb := bl.Txs[0].Serialize(true)
	// after the coinbase: empty transactions ("version 00 00 locktime", 10 bytes, accepted by both
	// decoders), distinct through their lock time; keeps a 65536-transaction block at 0.65 MB
	t := &reftx.Tx{Version: 2}
	body := make([]byte, 0, len(cb)+n*10)
	body = append(body, cb...)
	for i := 1; i < n; i++ {
		t.LockTime = uint32(i)
		body = append(body, t.Serialize(true)...)
	}
	for _, form := range csAllForms(uint64(n)) {
		add('b', "block-cs-boundary", "tx-count", cat3(hdr, form, body))
	}
}

func cat3(a, b, c []byte) []byte {
	out := make([]byte, 0, len(a)+len(b)+len(c))
	return append(append(append(out, a...), b...), c...)
}

// ---------------------------------------------------------------------------------------------
// batch generator: the cases of batch b are a pure function of (seed, b)

func genBatch(seed int64, batch int) []tcase {
	r := vlib.NewRand(uint64(seed)).Fork(fmt.Sprintf("C09/batch%d", batch))
	var cs []tcase
	add := func(kind byte, fam, fld string, data []byte) {
		cs = append(cs, tcase{Kind: kind, Fam: fam, Field: fld, Data: data})
	}

	// 1. valid encodings
	for i := 0; i < 40; i++ {
		b, _ := encodeTx(randTx(r, i%3, 2))
		add('t', "valid", "", b)
	}
	for i := 0; i < 4; i++ {
		b, _ := encodeTx(randTx(r, 2, 1))
		add('t', "valid", "", b)
	}
	// valid + trailing bytes
	for i := 0; i < 20; i++ {
		b, _ := encodeTx(randTx(r, i%2, 2))
		b = append(b, r.Bytes(1+r.Intn(40))...)
		add('t', "trailing", "", b)
	}

	// 2. every truncation of a few transactions (and the same with spare capacity behind len)
	for i := 0; i < 7; i++ {
		b, fl := encodeTx(smallTx(r, i%2, 2, 500))
		for n := 0; n < len(b); n++ {
			add('t', "trunc", fieldAt(fl, n), b[:n:n])
		}
		if i < 2 {
			for n := 0; n < len(b); n++ {
				cs = append(cs, tcase{Kind: 't', Fam: "trunc-slack", Field: fieldAt(fl, n), Slack: len(b) - n, Data: b})
			}
		}
	}

	// 3. every single-byte mutation of a few transactions
	for i := 0; i < 3; i++ {
		b, fl := encodeTx(smallTx(r, i%2, 2, 400))
		for n := 0; n < len(b); n++ {
			m := append([]byte{}, b...)
			var v byte
			switch r.Intn(4) {
			case 0:
				v = []byte{0, 1, 2, 0xfc, 0xfd, 0xfe, 0xff}[r.Intn(7)]
			case 1:
				v = b[n] ^ (1 << uint(r.Intn(8)))
			default:
				v = byte(r.U32())
			}
			if v == b[n] {
				v ^= 0x80
			}
			m[n] = v
			add('t', "mutate", fieldAt(fl, n), m)
		}
	}

	// 4. CompactSize forms at every count / length position
	for i := 0; i < 3; i++ {
		b, fl := encodeTx(smallTx(r, i%2, 1, 1500))
		for _, f := range fl {
			if !f.Count {
				continue
			}
			for _, w := range csWider(f.Val) {
				add('t', "cs-nonminimal", f.Name, splice(b, f.Off, f.Len, w))
			}
			for _, hv := range hugeSample(r, 1, 8) {
				add('t', "cs-huge", f.Name, splice(b, f.Off, f.Len, reftx.AppendCompactSize(nil, hv)))
			}
			for _, d := range []uint64{f.Val + 1, f.Val - 1, f.Val + 2} {
				if d > 1<<62 {
					continue
				}
				add('t', "cs-offbyone", f.Name, splice(b, f.Off, f.Len, reftx.AppendCompactSize(nil, d)))
			}
		}
	}
	// huge counts on a short body (the 19-byte shape of the design's probe)
	for _, hv := range hugeSample(r, 1, 1) {
		b := []byte{1, 0, 0, 0}
		b = reftx.AppendCompactSize(b, hv)
		b = append(b, r.Bytes(r.Intn(12))...)
		add('t', "cs-huge-short", "vin-count", b)
	}

	// 4b. CompactSize width boundaries with consistent bodies: the field really has the value
	// 0xfc / 0xfd / 0xffff / 0x10000 and is written in every form (one canonical, the others not)
	for _, name := range []string{"scriptsig-len", "pkscript-len", "witness-item-len", "witness-count"} {
		for _, n := range []int{0xfc, 0xfd, 0xffff, 0x10000} {
			boundaryCases(r, name, n, add)
		}
	}
	for _, name := range []string{"vin-count", "vout-count"} {
		for _, n := range []int{0xfc, 0xfd} {
			boundaryCases(r, name, n, add)
		}
		if batch%8 == 0 { // 65535 / 65536 inputs are 2.7 MB per case
			boundaryCases(r, name, 0xffff, add)
			boundaryCases(r, name, 0x10000, add)
		}
	}
	// the same boundary values (and the two around 2^32, which cannot have a real body) in every form
	// at every count / length position of a small transaction
	{
		b, fl := encodeTx(smallTx(r, 0, 1, 400))
		for _, f := range fl {
			if !f.Count {
				continue
			}
			for _, v := range csBoundaries {
				for _, form := range csAllForms(v) {
					add('t', "cs-boundary-short-body", f.Name, splice(b, f.Off, f.Len, form))
				}
			}
		}
	}

	// 5. marker / flag grid
	for i := 0; i < 3; i++ {
		t := randTx(r, 0, 1)
		full, _ := encodeTx(t)
		legacy := t.Serialize(false)
		body := full[6:] // after version, marker, flag
		for _, mf := range [][]byte{{0, 0}, {0, 1}, {0, 2}, {0, 3}, {0, 0x80}, {0, 0xff}, {1, 1}, {0}, {}} {
			add('t', "marker-grid", "flag", append(append(append([]byte{}, full[:4]...), mf...), body...))
			// flag on a legacy body (no witness section)
			add('t', "marker-grid-legacy-body", "flag", append(append(append([]byte{}, legacy[:4]...), mf...), legacy[4:]...))
		}
		// all witness stacks empty
		e := t.Clone()
		for k := range e.In {
			e.In[k].Witness = nil
		}
		eb := e.Serialize(false)
		sup := append(append([]byte{}, eb[:4]...), 0, 1)
		sup = append(sup, eb[4:len(eb)-4]...)
		sup = append(sup, make([]byte, len(e.In))...) // one 00 per input
		sup = append(sup, eb[len(eb)-4:]...)
		add('t', "all-empty-witness", "witness-count", sup)
		// empty vin with N outputs in legacy form: ver 00 N outs locktime
		for _, n := range []int{0, 1, 2, 3, 5} {
			z := &reftx.Tx{Version: 1}
			for k := 0; k < n; k++ {
				z.Out = append(z.Out, reftx.TxOut{Value: int64(k), PkScript: r.Bytes(r.Intn(5))})
			}
			zb := []byte{1, 0, 0, 0, 0}
			zb = reftx.AppendCompactSize(zb, uint64(n))
			for k := range z.Out {
				zb = reftx.AppendTxOut(zb, &z.Out[k])
			}
			zb = append(zb, 0, 0, 0, 0)
			add('t', "empty-vin", "vin-count", zb)
		}
	}
	// random short strings
	for i := 0; i < 40; i++ {
		add('t', "random", "", r.Bytes(r.Intn(64)))
	}

	// 6. blocks
	for i := 0; i < 10; i++ {
		n := 1 + r.Intn(6)
		if i == 0 {
			n = 1 + r.Intn(40)
		}
		b, _ := encodeBlock(randBlock(r, n, i%2))
		add('b', "block-valid", "", b)
		if i < 3 {
			add('b', "block-trailing", "", append(append([]byte{}, b...), r.Bytes(1+r.Intn(30))...))
		}
	}
	if batch%8 == 0 {
		// a block whose transactions exceed the 4096-byte hashing pack several times
		b, _ := encodeBlock(randBlock(r, 40+r.Intn(60), 1))
		add('b', "block-valid-big", "", b)
	}
	{
		bl := randBlock(r, 1+r.Intn(3), 0)
		for bl.TotalSize() > 600 {
			bl = randBlock(r, 1+r.Intn(3), 0)
		}
		b, fl := encodeBlock(bl)
		for n := 0; n < len(b); n++ {
			if n < 76 && n%8 != 0 {
				continue // the header has no structure: sample it
			}
			add('b', "block-trunc", fieldAt(fl, n), b[:n:n])
		}
		for n := 80; n < len(b); n++ {
			if !r.Chance(1, 2) {
				continue
			}
			m := append([]byte{}, b...)
			v := byte(r.U32())
			if r.Chance(1, 3) {
				v = []byte{0, 1, 0xfd, 0xfe, 0xff}[r.Intn(5)]
			}
			if v == b[n] {
				v ^= 1
			}
			m[n] = v
			add('b', "block-mutate", fieldAt(fl, n), m)
		}
		for _, f := range fl {
			if !f.Count {
				continue
			}
			for _, w := range csWider(f.Val) {
				add('b', "block-cs-nonminimal", f.Name, splice(b, f.Off, f.Len, w))
			}
			if f.Name == "tx-count" || r.Chance(1, 4) {
				cn := 1
				if f.Name == "tx-count" {
					cn = 4
				}
				for _, hv := range hugeSample(r, cn, 4) {
					add('b', "block-cs-huge", f.Name, splice(b, f.Off, f.Len, reftx.AppendCompactSize(nil, hv)))
				}
			}
			if f.Name == "tx-count" {
				for _, d := range []uint64{0, f.Val + 1, f.Val - 1} {
					add('b', "block-cs-offbyone", f.Name, splice(b, f.Off, f.Len, reftx.AppendCompactSize(nil, d)))
				}
			}
		}
		// header only / header + count
		add('b', "block-header-only", "header", b[:80:80])
		add('b', "block-header-only", "tx-count", b[:81:81])
	}

	boundaryBlock(r, 0xfc, add)
	boundaryBlock(r, 0xfd, add)
	if batch%16 == 4 { // 65535 / 65536 transactions
		boundaryBlock(r, 0xffff, add)
		boundaryBlock(r, 0x10000, add)
	}
	{
		b := append(make([]byte, 80), 0)
		for _, v := range csBoundaries {
			for _, form := range csAllForms(v) {
				add('b', "block-cs-boundary-short-body", "tx-count", splice(b, 80, 1, append(form, r.Bytes(r.Intn(70))...)))
			}
		}
	}

	// 7. Merkle lists
	for i := 0; i < 30; i++ {
		n := 1 + r.Intn(12)
		if i%10 == 0 {
			n = 1 + r.Intn(70)
		}
		hs := make([]byte, 0, 32*n)
		for k := 0; k < n; k++ {
			if k > 0 && r.Chance(1, 5) {
				hs = append(hs, hs[len(hs)-32:]...) // duplicate of the previous leaf
			} else if k > 1 && r.Chance(1, 10) {
				j := r.Intn(k)
				hs = append(hs, hs[32*j:32*j+32]...)
			} else {
				hs = append(hs, r.Bytes(32)...)
			}
		}
		add('m', "merkle", "", hs)
	}
	return cs
}
