package main

// Library-level differential worker of C14 (runs as a child process; every case is journaled
// before gocoin code is called).

import (
	"bytes"
	"encoding/binary"
	"encoding/hex"
	"encoding/json"
	"fmt"
	"hash/fnv"
	"math/big"
	"os"
	"strconv"
	"strings"

	"github.com/piotrnar/gocoin/lib/btc"
	"github.com/piotrnar/gocoin/lib/others/bip39"
	"verif/lib/vlib"
	"verif/ref/refaddr"
	"verif/ref/refhd"
)

type libResult struct {
	Counts   map[string]int64 `json:"counts"`
	Vios     []vio            `json:"vios"`
	VioCount map[string]int64 `json:"vio_count"`
	Broken   []string         `json:"broken"`
	Samples  []interface{}    `json:"samples"`
}

var (
	lres  = libResult{Counts: map[string]int64{}, VioCount: map[string]int64{}}
	lset  = map[uint64]struct{}{}
	ljf   *os.File
	lcase string
)

func lcount(k string) { lres.Counts[k]++ }
func lviol(class, what string, w map[string]interface{}) {
	lres.VioCount[class]++
	if lres.VioCount[class] <= 3 {
		if w == nil {
			w = map[string]interface{}{}
		}
		w["case"] = lcase
		lres.Vios = append(lres.Vios, vio{class, what, w})
	}
}
func lbroken(f string, a ...interface{}) {
	if len(lres.Broken) < 10 {
		lres.Broken = append(lres.Broken, fmt.Sprintf(f, a...))
	}
}
func ljournal(s string) {
	lcase = s
	if ljf != nil {
		b := append([]byte(s), bytes.Repeat([]byte{' '}, 8)...)
		ljf.WriteAt(append(b, '\n'), 0)
		ljf.Truncate(int64(len(b) + 1))
	}
}
func ldistinct(s string) {
	if len(lset) >= 400000 {
		return
	}
	h := fnv.New64a()
	h.Write([]byte(s))
	lset[h.Sum64()] = struct{}{}
}

// guard runs f and reports a panic of gocoin code as a violation of class panic/<what>
func guard(what string, w map[string]interface{}, f func()) (ok bool) {
	defer func() {
		if r := recover(); r != nil {
			if w == nil {
				w = map[string]interface{}{}
			}
			w["panic"] = fmt.Sprint(r)
			lviol("panic/"+what, "gocoin panics in "+what+": "+fmt.Sprint(r), w)
			ok = false
		}
	}()
	f()
	return true
}

// pubCheck compares a compressed/uncompressed public key computed by gocoin with the model's.
// A difference in the 02/03 prefix only (same X) is the root-cause class "pubkey-parity/<api>";
// everything derived from such a key (fingerprints, non-hardened children, addresses) is poisoned,
// so callers stop the case there instead of reporting the consequences under other classes.
func pubCheck(api string, gpub, mpub []byte, w map[string]interface{}) bool {
	lcount("pubkey_checks")
	if bytes.Equal(gpub, mpub) {
		return true
	}
	ww := map[string]interface{}{"gocoin_pubkey": hex.EncodeToString(gpub), "model_pubkey": hex.EncodeToString(mpub)}
	for k, v := range w {
		ww[k] = v
	}
	if len(gpub) == 33 && len(mpub) == 33 && bytes.Equal(gpub[1:], mpub[1:]) && (gpub[0] == 2 || gpub[0] == 3) {
		lcount("pubkey_parity_hits")
		lviol("pubkey-parity/"+api, "compressed public key has the right X but the wrong 02/03 parity prefix", ww)
	} else {
		lviol("pubkey-mismatch/"+api, "public key differs from k*G of the model", ww)
	}
	return false
}

func privPub(key []byte) (pub []byte) {
	defer func() { recover() }()
	return btc.PublicFromPrivate(key, true)
}

var privVersions = []uint32{refhd.VerXprv, refhd.VerYprv, refhd.VerZprv, refhd.VerTprv, refhd.VerUprv, refhd.VerVprv}

func pickIndex(r *vlib.Rand) uint32 {
	switch r.Intn(12) {
	case 0:
		return 0
	case 1:
		return 0x7fffffff
	case 2:
		return 0x80000000
	case 3:
		return 0xffffffff
	case 4:
		return 0x7ffffffe
	case 5:
		return 0x80000001
	case 6, 7:
		return uint32(r.Intn(50))
	case 8:
		return 0x80000000 | uint32(r.Intn(50))
	default:
		return r.U32()
	}
}

func cmpHD(where string, g *btc.HDWallet, m *refhd.ExtKey, w map[string]interface{}) bool {
	ok := true
	bad := func(class, what string) {
		ww := map[string]interface{}{"where": where, "gocoin": g.String(), "model": m.String()}
		for k, v := range w {
			ww[k] = v
		}
		lviol(class, what, ww)
		ok = false
	}
	if m.IsPrivate() {
		if len(g.Key) != 33 || g.Key[0] != 0 || !bytes.Equal(g.Key[1:], m.Priv) {
			bad("hd-private-key-mismatch/"+where, "private child key differs from CKDpriv of the model")
			return false
		}
	} else if !bytes.Equal(g.Key, m.Pub) {
		if len(g.Key) == 33 && bytes.Equal(g.Key[1:], m.Pub[1:]) {
			pubCheck("HDWallet/"+where, g.Key, m.Pub, w) // root-cause class pubkey-parity/...
			return false
		}
		bad("hd-public-key-mismatch/"+where, "public child key differs from the model")
		return false
	}
	if !bytes.Equal(g.ChCode, m.ChainCode) {
		bad("hd-chaincode-mismatch/"+where, "chain code differs from the model")
	}
	if g.Depth != m.Depth || g.I != m.ChildNum || g.Checksum != m.ParentFP || g.Prefix != m.Version {
		bad("hd-metadata-mismatch/"+where, "depth / child number / parent fingerprint / version differ from the model")
	}
	if ok && g.String() != m.String() {
		bad("hd-serialization-mismatch/"+where, "Base58 serialisation differs from the model")
	}
	return ok
}

func pubAddrWant(m *refhd.ExtKey) string {
	pub := m.PubKey()
	h := refaddr.Hash160(pub)
	tn := false
	switch m.Version {
	case refhd.VerTprv, refhd.VerUprv, refhd.VerVprv, refhd.VerTpub, refhd.VerUpub, refhd.VerVpub:
		tn = true
	}
	vp, vs, hrp := byte(0), byte(5), "bc"
	if tn {
		vp, vs, hrp = 111, 196, "tb"
	}
	switch m.Version {
	case refhd.VerZprv, refhd.VerVprv, refhd.VerZpub, refhd.VerVpub:
		s, _ := refaddr.SegwitEncode(hrp, 0, h)
		return s
	case refhd.VerYprv, refhd.VerUprv, refhd.VerYpub, refhd.VerUpub:
		return refaddr.Base58CheckEncode(append([]byte{vs}, refaddr.Hash160(append([]byte{0, 20}, h...))...))
	}
	return refaddr.Base58CheckEncode(append([]byte{vp}, h...))
}

func hdPathCase(r *vlib.Rand) {
	seed := r.Bytes(16 + r.Intn(49))
	if r.Intn(10) == 0 {
		seed = r.Bytes(1 + r.Intn(100))
	}
	tn := r.Intn(4) == 0
	depth := 1 + r.Intn(6)
	path := make([]uint32, depth)
	for i := range path {
		path[i] = pickIndex(r)
	}
	ver := privVersions[r.Intn(len(privVersions))]
	ljournal(fmt.Sprintf("hdpath seed=%x testnet=%v ver=%08x path=%v", seed, tn, ver, path))
	var g *btc.HDWallet
	if !guard("MasterKey", nil, func() { g = btc.MasterKey(seed, tn) }) {
		return
	}
	mv := uint32(refhd.VerXprv)
	if tn {
		mv = refhd.VerTprv
	}
	m, err := refhd.Master(seed, mv)
	if err != nil {
		lcount("model_invalid_master_skipped")
		return
	}
	lcount("master_keys")
	if !cmpHD("master", g, m, nil) {
		return
	}
	if !pubCheck("PublicFromPrivate", privPub(m.Priv), m.PubKey(), map[string]interface{}{"private_key": hex.EncodeToString(m.Priv)}) {
		return
	}
	g.Prefix = ver
	m.Version = ver
	for d, idx := range path {
		ljournal(fmt.Sprintf("hdpath seed=%x ver=%08x path=%v step=%d", seed, ver, path, d))
		w := map[string]interface{}{"seed": hex.EncodeToString(seed), "path": pathString(path[:d+1]), "version": fmt.Sprintf("%08x", ver)}
		mc, err := m.Child(idx)
		if err != nil {
			lcount("model_invalid_child_skipped")
			return
		}
		var gc *btc.HDWallet
		if !guard("HDWallet.Child", w, func() { gc = g.Child(idx) }) {
			return
		}
		lcount("hd_steps")
		if idx >= refhd.Hardened {
			lcount("hd_steps_hardened")
		}
		if mc.Priv[0] == 0 {
			lcount("hd_child_key_leading_zero_byte")
		}
		ldistinct(fmt.Sprintf("%x/%v", seed, path[:d+1]))
		if !cmpHD("private-child", gc, mc, w) {
			return
		}
		w["private_key"] = hex.EncodeToString(mc.Priv)
		if !pubCheck("PublicFromPrivate", privPub(mc.Priv), mc.PubKey(), w) {
			return
		}
		// neutered forms
		var gp, gcp *btc.HDWallet
		if !guard("HDWallet.Pub", w, func() { gp = g.Pub(); gcp = gc.Pub() }) {
			return
		}
		mp, mcp := m.Neuter(), mc.Neuter()
		if !cmpHD("neutered", gcp, mcp, w) {
			return
		}
		// public derivation == public counterpart of the private child (non-hardened only)
		if idx < refhd.Hardened {
			var gpc *btc.HDWallet
			if !guard("HDWallet.Child(public)", w, func() { gpc = gp.Child(idx) }) {
				return
			}
			lcount("hd_public_derivations")
			mpc, err := mp.Child(idx)
			if err != nil {
				lcount("model_invalid_child_skipped")
				return
			}
			if mpc.String() != mcp.String() {
				lbroken("model: CKDpub != N(CKDpriv) for %v", w)
				return
			}
			if !cmpHD("public-child", gpc, mpc, w) {
				return
			}
		}
		// serialise -> parse -> same object; child of the parsed object equal again
		if r.Intn(4) == 0 {
			var back *btc.HDWallet
			var e error
			for _, src := range []*btc.HDWallet{gc, gcp} {
				s := src.String()
				if !guard("StringWallet", w, func() { back, e = btc.StringWallet(s) }) {
					return
				}
				if e != nil || back.String() != s {
					w["string"] = s
					lviol("hd-reimport-mismatch", "StringWallet(String()) does not give the same extended key back", w)
					return
				}
				lcount("hd_reimports")
			}
			// the model's string parsed by gocoin
			if !guard("StringWallet", w, func() { back, e = btc.StringWallet(mc.String()) }) {
				return
			}
			if e != nil || !cmpHD("reimported", back, mc, w) {
				if e != nil {
					lviol("hd-reimport-refused", "StringWallet refuses a valid extended key: "+e.Error(), w)
				}
				return
			}
		}
		// address of the key in the form the version bytes ask for
		if r.Intn(3) == 0 {
			var a string
			if !guard("HDWallet.PubAddr", w, func() { a = gc.PubAddr().String() }) {
				return
			}
			var a2 string
			guard("HDWallet.PubAddr", w, func() { a2 = gcp.PubAddr().String() })
			want := pubAddrWant(mc)
			lcount("hd_pubaddr")
			if a != want || a2 != want {
				w["gocoin"], w["gocoin_from_pub"], w["model"] = a, a2, want
				lviol("hd-pubaddr-mismatch", "PubAddr() is not the address of the extended key in the form its version bytes denote", w)
			}
		}
		g, m = gc, mc
	}
}

func deriveNextCase(r *vlib.Rand) {
	n := refaddr.CurveN
	p := new(big.Int).SetBytes(r.Bytes(32))
	p.Mod(p, n)
	if p.Sign() == 0 {
		p.SetInt64(1)
	}
	s := new(big.Int).SetBytes(r.Bytes(32))
	s.Mod(s, n)
	fam := "random"
	switch r.Intn(8) {
	case 0: // sum == n  -> 0
		s.Sub(n, p)
		fam = "sum=n"
	case 1: // sum == n+1 -> 1
		s.Sub(n, p)
		s.Add(s, big.NewInt(1))
		s.Mod(s, n)
		fam = "sum=n+1"
	case 2:
		s.SetInt64(int64(r.Intn(3)))
		fam = "tiny-secret"
	case 3:
		p.SetInt64(int64(1 + r.Intn(3)))
		fam = "tiny-key"
	case 4: // leading zero bytes
		p.Rsh(p, uint(8*(1+r.Intn(6))))
		if p.Sign() == 0 {
			p.SetInt64(7)
		}
		s.Rsh(s, uint(8*(1+r.Intn(6))))
		fam = "leading-zeros"
	}
	pb, sb := pad(p), pad(s)
	ljournal(fmt.Sprintf("derivenext p=%x s=%x", pb, sb))
	lcount("derive_next_cases")
	lcount("derive_next_cases/" + fam)
	want := new(big.Int).Add(p, s)
	want.Mod(want, n)
	w := map[string]interface{}{"p": hex.EncodeToString(pb), "s": hex.EncodeToString(sb), "family": fam}
	var got []byte
	if !guard("DeriveNextPrivate", w, func() { got = btc.DeriveNextPrivate(pb, sb) }) {
		return
	}
	if !bytes.Equal(got, pad(want)) {
		w["gocoin"], w["model"] = hex.EncodeToString(got), hex.EncodeToString(pad(want))
		lviol("derive-next-private-mismatch/"+fam, "DeriveNextPrivate(p,s) != (p+s) mod n as 32 bytes", w)
		return
	}
	if want.Sign() == 0 {
		lcount("derive_next_zero_result")
		return
	}
	// public side: P + s*G must be the public key of (p+s)
	P := refhd.BaseMul(p)
	compressed := r.Intn(4) != 0
	pubIn := P.SerializeCompressed()
	wantPt := refhd.BaseMul(want)
	wantPub := wantPt.SerializeCompressed()
	if !compressed {
		pubIn, wantPub = P.SerializeUncompressed(), wantPt.SerializeUncompressed()
	}
	if sum := refhd.Add(refhd.BaseMul(s), P); sum.Inf || sum.X.Cmp(wantPt.X) != 0 || sum.Y.Cmp(wantPt.Y) != 0 {
		lbroken("model: sG+P != (p+s)G for %v", w)
		return
	}
	var gpub, gpub2 []byte
	if !guard("DeriveNextPublic", w, func() { gpub = btc.DeriveNextPublic(pubIn, sb) }) {
		return
	}
	if !guard("PublicFromPrivate", w, func() { gpub2 = btc.PublicFromPrivate(got, compressed) }) {
		return
	}
	lcount("derive_next_public_cases")
	w["public_in"] = hex.EncodeToString(pubIn)
	pubCheck("DeriveNextPublic", gpub, wantPub, w)
	pubCheck("PublicFromPrivate", gpub2, wantPub, w)
}

func pad(x *big.Int) []byte {
	b := x.Bytes()
	out := make([]byte, 32)
	copy(out[32-len(b):], b)
	return out
}

func keyCodecCase(r *vlib.Rand) {
	k := r.Bytes(32)
	fam := "random"
	switch r.Intn(6) {
	case 0:
		k = pad(big.NewInt(int64(1 + r.Intn(5))))
		fam = "tiny"
	case 1:
		k = pad(new(big.Int).Sub(refaddr.CurveN, big.NewInt(int64(1+r.Intn(5)))))
		fam = "n-minus-small"
	case 2:
		for i := 0; i < 1+r.Intn(10); i++ {
			k[i] = 0
		}
		fam = "leading-zeros"
	}
	if !refaddr.ValidPrivKey(k) {
		k[0] &= 0x7f
		if !refaddr.ValidPrivKey(k) {
			k[31] |= 1
		}
	}
	ver := []byte{0x80, 0xef, 0xb0}[r.Intn(3)]
	compr := r.Intn(5) != 0
	ljournal(fmt.Sprintf("keycodec key=%x ver=%d compr=%v", k, ver, compr))
	lcount("key_codec_cases")
	w := map[string]interface{}{"key": hex.EncodeToString(k), "version": ver, "compressed": compr, "family": fam}
	pt, err := refhd.PubFromPriv(k)
	if err != nil {
		lbroken("generator made an invalid key")
		return
	}
	wantPub := pt.SerializeCompressed()
	if !compr {
		wantPub = pt.SerializeUncompressed()
	}
	var pa *btc.PrivateAddr
	var wif string
	if !guard("NewPrivateAddr", w, func() { pa = btc.NewPrivateAddr(append([]byte{}, k...), ver, compr); wif = pa.String() }) {
		return
	}
	if !pubCheck("NewPrivateAddr", pa.BtcAddr.Pubkey, wantPub, w) {
		return
	}
	wantWif := refaddr.WIFEncode(ver, k, compr)
	wantAddr := refaddr.Base58CheckEncode(append([]byte{ver - 0x80}, refaddr.Hash160(wantPub)...))
	if wif != wantWif || !bytes.Equal(pa.BtcAddr.Pubkey, wantPub) || pa.BtcAddr.String() != wantAddr {
		w["gocoin_wif"], w["model_wif"], w["gocoin_addr"], w["model_addr"] = wif, wantWif, pa.BtcAddr.String(), wantAddr
		lviol("private-addr-mismatch/"+fam, "NewPrivateAddr: WIF / public key / address differ from the model", w)
		return
	}
	var back *btc.PrivateAddr
	var e error
	if !guard("DecodePrivateAddr", w, func() { back, e = btc.DecodePrivateAddr(wif) }) {
		return
	}
	if e != nil || !bytes.Equal(back.Key, k) || back.Version != ver || back.BtcAddr.String() != wantAddr || back.String() != wif {
		w["error"] = fmt.Sprint(e)
		lviol("wif-reimport-mismatch/"+fam, "an exported WIF does not re-import to the same key / address", w)
		return
	}
	if r.Intn(6) == 0 {
		var ve error
		if guard("VerifyKeyPair", w, func() { ve = btc.VerifyKeyPair(k, pa.BtcAddr.Pubkey) }) && ve != nil && compr {
			w["error"] = ve.Error()
			lviol("verify-key-pair-fails/"+fam, "VerifyKeyPair fails for a valid key pair", w)
		}
		lcount("verify_key_pair_cases")
	}
}

func bip39Case(r *vlib.Rand) {
	size := []int{16, 20, 24, 28, 32}[r.Intn(5)]
	ent := r.Bytes(size)
	fam := "random"
	switch r.Intn(8) {
	case 0:
		for i := range ent {
			ent[i] = 0
		}
		fam = "zero"
	case 1:
		for i := range ent {
			ent[i] = 0xff
		}
		fam = "ones"
	case 2:
		for i := 0; i < 1+r.Intn(4); i++ {
			ent[i] = 0
		}
		fam = "leading-zeros"
	case 3:
		ent[size-1], ent[size-2] = 0, 0
		fam = "trailing-zeros"
	}
	ljournal(fmt.Sprintf("bip39 entropy=%x", ent))
	lcount("bip39_entropy_cases")
	lcount(fmt.Sprintf("bip39_entropy_cases/%dbit", size*8))
	w := map[string]interface{}{"entropy": hex.EncodeToString(ent), "family": fam}
	want, err := refhd.MnemonicFromEntropy(ent)
	if err != nil {
		lbroken("model refuses entropy of %d bytes", size)
		return
	}
	var got string
	var e error
	if !guard("bip39.NewMnemonic", w, func() { got, e = bip39.NewMnemonic(ent) }) {
		return
	}
	if e != nil || got != want {
		w["gocoin"], w["model"], w["error"] = got, want, fmt.Sprint(e)
		lviol(fmt.Sprintf("bip39-mnemonic-mismatch/%dbit/%s", size*8, fam), "bip39.NewMnemonic differs from BIP39", w)
		return
	}
	ldistinct("bip39/" + want)
	var back, back2 []byte
	var e2 error
	if !guard("bip39.EntropyFromMnemonic", w, func() { back, e = bip39.EntropyFromMnemonic(want); back2, e2 = bip39.MnemonicToByteArray(want, true) }) {
		return
	}
	if e != nil || !bytes.Equal(back, ent) {
		w["gocoin"], w["error"] = hex.EncodeToString(back), fmt.Sprint(e)
		lviol(fmt.Sprintf("bip39-entropy-roundtrip/%dbit/%s", size*8, fam), "EntropyFromMnemonic(NewMnemonic(e)) != e", w)
		return
	}
	if e2 != nil || !bytes.Equal(back2, ent) {
		w["gocoin"], w["error"] = hex.EncodeToString(back2), fmt.Sprint(e2)
		lviol(fmt.Sprintf("bip39-bytearray-roundtrip/%dbit/%s", size*8, fam), "MnemonicToByteArray(NewMnemonic(e), raw) != e", w)
		return
	}
	// validity verdicts on damaged mnemonics
	ws := strings.Split(want, " ")
	for t := 0; t < 3; t++ {
		m := append([]string{}, ws...)
		mf := ""
		switch r.Intn(6) {
		case 0, 1: // swap one word for another list word: checksum mostly (not always) wrong
			m[r.Intn(len(m))] = refhd.Words[r.Intn(2048)]
			mf = "word-replaced"
		case 2:
			i, j := r.Intn(len(m)), r.Intn(len(m))
			m[i], m[j] = m[j], m[i]
			mf = "words-swapped"
		case 3:
			m = m[:len(m)-1-r.Intn(3)]
			mf = "words-dropped"
		case 4:
			m = append(m, refhd.Words[r.Intn(2048)])
			if r.Bool() {
				m = append(m, refhd.Words[r.Intn(2048)], refhd.Words[r.Intn(2048)])
			}
			mf = "words-added"
		default:
			i := r.Intn(len(m))
			switch r.Intn(3) {
			case 0:
				m[i] = m[i] + "s"
			case 1:
				m[i] = strings.ToUpper(m[i])
			default:
				m[i] = m[i][:len(m[i])-1]
			}
			mf = "word-damaged"
		}
		ms := strings.Join(m, " ")
		ljournal("bip39 mnemonic=" + ms)
		lcount("bip39_validity_cases")
		lcount("bip39_validity_cases/" + mf)
		_, reason := refhd.EntropyFromMnemonic(ms)
		var ev, es error
		var sd []byte
		ww := map[string]interface{}{"mnemonic": ms, "model_reason": reason, "family": mf}
		if !guard("bip39.IsMnemonicValid", ww, func() { ev = bip39.IsMnemonicValid(ms); sd, es = bip39.NewSeedWithErrorChecking(ms, "") }) {
			continue
		}
		if (ev == nil) != (reason == "") || (es == nil) != (reason == "") {
			ww["IsMnemonicValid"], ww["NewSeedWithErrorChecking"] = fmt.Sprint(ev), fmt.Sprint(es)
			dir := "accepts-invalid/" + reason
			if reason == "" {
				dir = "refuses-valid"
			}
			lviol("bip39-validity/"+dir+"/"+mf, "bip39 validity verdict differs from BIP39", ww)
			continue
		}
		if reason == "" {
			lcount("bip39_validity_cases_valid")
			if !bytes.Equal(sd, refhd.SeedFromMnemonic(ms, "")) {
				lviol("bip39-seed-mismatch/ascii", "seed differs from PBKDF2-HMAC-SHA512(mnemonic, 'mnemonic'+passphrase, 2048)", ww)
			}
		}
	}
	// seeds (expensive: 2 x 2048 HMAC-SHA512 on each side)
	if r.Intn(3) == 0 {
		pass := []string{"", "TREZOR", "a", "correct horse battery staple", "pass word with spaces ", strings.Repeat("x", 200)}[r.Intn(6)]
		ljournal(fmt.Sprintf("bip39 seed mnemonic=%q pass=%q", want, pass))
		var sd []byte
		if guard("bip39.NewSeed", w, func() { sd = bip39.NewSeed(want, pass) }) {
			lcount("bip39_seed_cases")
			if !bytes.Equal(sd, refhd.SeedFromMnemonic(want, pass)) {
				w["passphrase"] = pass
				lviol("bip39-seed-mismatch/ascii", "seed differs from PBKDF2-HMAC-SHA512(mnemonic, 'mnemonic'+passphrase, 2048)", w)
			}
		}
	}
}

func bip39Fixed() {
	m := "abandon abandon abandon abandon abandon abandon abandon abandon abandon abandon abandon about"
	// wrong entropy sizes must be refused
	for _, n := range []int{0, 1, 4, 12, 15, 17, 31, 33, 36, 40, 64} {
		ljournal(fmt.Sprint("bip39 bad entropy size ", n))
		var e error
		var s string
		if guard("bip39.NewMnemonic", nil, func() { s, e = bip39.NewMnemonic(make([]byte, n)) }) && e == nil {
			lviol("bip39-accepts-entropy-size", "NewMnemonic accepts an entropy size BIP39 does not allow", map[string]interface{}{"bytes": n, "mnemonic": s})
		}
		lcount("bip39_bad_entropy_sizes")
	}
	// passphrases: NFKD normalisation is part of BIP39's seed definition
	for _, pp := range []string{"caf\u00e9", "\u00c5ngstrom", "\u212b", "\u00b5", "\ufb01sh", "\u2460", "ma\u00f1ana", "\u00fcber"} {
		norm, ok := refhd.NFKDKnown(pp)
		if !ok {
			lbroken("NFKD table does not cover %q", pp)
			continue
		}
		ljournal(fmt.Sprintf("bip39 seed non-NFKD passphrase %q", pp))
		var sd, sd2 []byte
		w := map[string]interface{}{"mnemonic": m, "passphrase": strconv.QuoteToASCII(pp), "passphrase_nfkd": strconv.QuoteToASCII(norm)}
		if guard("bip39.NewSeed", w, func() { sd = bip39.NewSeed(m, pp); sd2 = bip39.NewSeed(m, norm) }) {
			lcount("bip39_seed_nonascii_cases")
			want := refhd.SeedFromMnemonic(m, norm)
			if !bytes.Equal(sd2, want) {
				lviol("bip39-seed-mismatch/nfkd-form-passphrase", "seed differs from BIP39 for a passphrase that already is in NFKD form", w)
			}
			if !bytes.Equal(sd, want) {
				w["gocoin_seed"], w["bip39_seed"] = hex.EncodeToString(sd), hex.EncodeToString(want)
				lviol("bip39-seed-mismatch/passphrase-not-nfkd", "bip39.NewSeed does not NFKD-normalise the passphrase: seed differs from BIP39 (and from other wallets) for a passphrase typed with precomposed / compatibility characters", w)
			}
		}
	}
}

func libChild(args []string) {
	shard, _ := strconv.Atoi(args[0])
	seed, _ := strconv.ParseUint(args[1], 10, 64)
	steps, _ := strconv.Atoi(args[2])
	outfile, jpath := args[3], args[4]
	var err error
	ljf, err = os.Create(jpath)
	if err != nil {
		fmt.Println("cannot create journal")
		os.Exit(4)
	}
	root := vlib.NewRand(seed).Fork(fmt.Sprintf("C14/lib%d", shard))
	r := root.Fork("hd")
	for lres.Counts["hd_steps"] < int64(steps) {
		before := lres.Counts["hd_steps"]
		hdPathCase(r)
		if lres.Counts["hd_steps"] == before && len(lres.Vios) > 50 {
			break
		}
		if r.Drawn > uint64(steps)*400 { // generator safety net (count-based)
			break
		}
	}
	r = root.Fork("derivenext")
	for i := 0; i < steps/8; i++ {
		deriveNextCase(r)
	}
	r = root.Fork("keycodec")
	for i := 0; i < steps/8; i++ {
		keyCodecCase(r)
	}
	r = root.Fork("bip39")
	for i := 0; i < steps/12; i++ {
		bip39Case(r)
	}
	if shard == 0 {
		bip39Fixed()
	}
	if len(lres.Samples) == 0 {
		lres.Samples = append(lres.Samples, map[string]interface{}{"lib_shard": shard, "hd_steps": lres.Counts["hd_steps"], "last_case": lcase})
	}
	b, _ := json.Marshal(&lres)
	os.WriteFile(outfile, b, 0o644)
	buf := make([]byte, 0, 8*len(lset))
	for k := range lset {
		buf = binary.LittleEndian.AppendUint64(buf, k)
	}
	os.WriteFile(outfile+".set", buf, 0o644)
	ljf.Close()
}
