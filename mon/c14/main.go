// C14 — wallet keys are a deterministic function of the seed and follow BIP32/BIP39.
//
// Two monitors in one check:
//  1. library level (child workers, journaled): btc.MasterKey / HDWallet.Child / Pub / String /
//     StringWallet / PubAddr, DeriveNextPrivate/Public, PublicFromPrivate, NewPrivateAddr /
//     DecodePrivateAddr, VerifyKeyPair and the bip39 package, compared case by case with the
//     independent models refhd / refaddr;
//  2. the real wallet binary, built by this check from the current working tree, run in
//     throw-away directories with generated wallet.cfg / .secret: listed addresses, dumped keys,
//     xprv/xpub lines and mnemonics are compared with derivations done by refhd + refaddr from the
//     same password and configuration; determinism = two independent runs print the same.
package main

import (
	"bytes"
	"context"
	"encoding/binary"
	"encoding/hex"
	"encoding/json"
	"fmt"
	"os"
	"os/exec"
	"path/filepath"
	"regexp"
	"sort"
	"strconv"
	"strings"
	"sync"
	"time"

	"github.com/piotrnar/gocoin/lib/btc"
	"verif/lib/vlib"
	"verif/ref/refaddr"
	"verif/ref/refhd"
)

type vio struct {
	Class   string                 `json:"class"`
	What    string                 `json:"what"`
	Witness map[string]interface{} `json:"witness"`
}

func repoDir() string {
	if r := os.Getenv("VERIF_REPO"); r != "" {
		return r
	}
	return "/repo"
}

func main() {
	if len(os.Args) > 1 && os.Args[1] == "libchild" {
		libChild(os.Args[2:])
		return
	}
	run := vlib.Start("C14", "differential")
	if err := refaddr.Calibrate(filepath.Join(repoDir(), "lib/test/base58_encode_decode.json")); err != nil {
		fmt.Printf("BROKEN property=C14 refaddr calibration failed: %v\n", err)
		os.Exit(2)
	}
	if err := refhd.Calibrate(); err != nil {
		fmt.Printf("BROKEN property=C14 refhd calibration failed: %v\n", err)
		os.Exit(2)
	}
	run.Count("calibration_ok", 1)
	tmp, err := os.MkdirTemp("", "c14")
	if err != nil {
		fmt.Println("BROKEN property=C14 no temp dir")
		os.Exit(2)
	}
	defer os.RemoveAll(tmp)

	// build the wallet from the current working tree
	walletBin := filepath.Join(tmp, "wallet")
	cmd := exec.Command("go", "build", "-o", walletBin, "./wallet")
	cmd.Dir = repoDir()
	cmd.Env = append(cleanEnv(), "GOFLAGS=-mod=mod", "GOPROXY=off", "GOSUMDB=off", "GOTOOLCHAIN=local")
	if out, err := cmd.CombinedOutput(); err != nil {
		fmt.Printf("BROKEN property=C14 cannot build the wallet: %v\n%s\n", err, vlib.Tail(out, 2000))
		os.RemoveAll(tmp)
		os.Exit(2)
	}

	var mu sync.Mutex
	var brokenMsgs []string
	report := func(vs []vio) {
		for _, v := range vs {
			run.Violation(v.Class, v.What, v.Witness)
		}
	}

	// ---- library level
	nshards := 12
	perShard := run.N(3500, 300000) // HD derivation steps per shard (x12)
	seed := run.Rand("lib").U64()
	var wg sync.WaitGroup
	wg.Add(1)
	go func() {
		defer wg.Done()
		vlib.Parallel(nshards, 8, func(i int) {
			out := fmt.Sprintf("%s/lib%d.json", tmp, i)
			jp := fmt.Sprintf("%s/libjournal%d", tmp, i)
			args := []string{"libchild", fmt.Sprint(i), fmt.Sprint(seed), fmt.Sprint(perShard), out, jp}
			cr := vlib.RunChild("", args, []string{"GOTRACEBACK=all", "GOMAXPROCS=2"}, nil, 90*time.Minute)
			mu.Lock()
			defer mu.Unlock()
			if cr.TimedOut {
				run.Inconclusive("library worker %d: watchdog fired", i)
				return
			}
			if cr.ExitCode != 0 {
				jb, _ := os.ReadFile(jp)
				run.Violation("lib-crash", fmt.Sprintf("library worker died (exit %d signal %s) in the journaled case", cr.ExitCode, cr.Signal),
					map[string]interface{}{"journal": string(jb), "output_tail": vlib.Tail(cr.Out, 3000), "args": args})
				return
			}
			var r libResult
			b, err := os.ReadFile(out)
			if err != nil || json.Unmarshal(b, &r) != nil {
				run.Inconclusive("library worker %d: no result", i)
				return
			}
			for k, v := range r.Counts {
				run.Count("lib/"+k, v)
			}
			report(r.Vios)
			for c, n := range r.VioCount {
				run.Count("violations_by_class/"+c, n)
			}
			brokenMsgs = append(brokenMsgs, r.Broken...)
			for _, s := range r.Samples {
				if run.WantSample() {
					run.Sample(s)
				}
			}
			buf, _ := os.ReadFile(out + ".set")
			for o := 0; o+8 <= len(buf); o += 8 {
				run.Distinct("lib_derivations", binary.LittleEndian.Uint64(buf[o:]))
			}
			run.Count("lib_workers_ok", 1)
		})
	}()

	// ---- wallet binary
	nsc := run.N(160, 5000)
	scr := run.Rand("scenarios")
	scs := make([]*scenario, nsc)
	for i := range scs {
		scs[i] = genScenario(scr.Fork(fmt.Sprint("s", i)), i)
	}
	vlib.Parallel(nsc, 8, func(i int) {
		sc := scs[i]
		dir := filepath.Join(tmp, fmt.Sprintf("sc%d", i))
		o := runScenario(walletBin, dir, sc)
		os.RemoveAll(dir)
		mu.Lock()
		defer mu.Unlock()
		for k, v := range o.counts {
			run.Count("wallet/"+k, v)
		}
		for _, m := range o.inconclusive {
			run.Inconclusive("scenario %d: %s", i, m)
		}
		brokenMsgs = append(brokenMsgs, o.broken...)
		report(o.vios)
		if o.keysChecked > 0 {
			run.Count("wallet/scenarios_checked", 1)
			run.Count("wallet/family/"+sc.family(), 1)
			run.Distinct("wallet_configs", sc.configKey())
			for _, k := range o.keyIDs {
				run.Distinct("wallet_keys", k)
			}
			if run.WantSample() && i%7 == 0 {
				run.Sample(map[string]interface{}{"scenario": sc.describe(), "first_line": o.firstLine, "keys": o.keysChecked})
			}
		}
	})
	wg.Wait()
	if len(brokenMsgs) > 0 {
		sort.Strings(brokenMsgs)
		fmt.Printf("BROKEN property=C14 harness/model assertion failed: %s\n", brokenMsgs[0])
		os.RemoveAll(tmp)
		os.Exit(2)
	}
	// The known parity defect hits about 1 key in 20000. A parity error that is frequent is a different
	// defect and must not hide behind the known class pubkey-parity/*.
	if h, n := run.Get("lib/pubkey_parity_hits"), run.Get("lib/pubkey_checks"); h > 3 && h*500 > n {
		run.Violation("pubkey-parity-systematic/library", fmt.Sprintf("%d of %d compressed public keys have the wrong parity prefix (far above the known 1/20000 rate)", h, n), map[string]interface{}{"hits": h, "checks": n})
	}
	if a := run.Get("wallet/listing_aborted_by_parity"); a > 2 && a*10 > int64(nsc) {
		run.Violation("pubkey-parity-systematic/wallet", fmt.Sprintf("%d of %d wallet scenarios abort listing because of wrong public key parity", a, nsc), map[string]interface{}{"aborted": a, "scenarios": nsc})
	}
	// evaluations = wallet keys checked + library derivation steps
	run.Count("evaluations", run.Get("wallet/keys_checked")+run.Get("lib/hd_steps"))
	for _, k := range []string{"wallet/keys_checked", "lib/hd_steps", "lib/bip39_entropy_cases", "wallet/scenarios_checked"} {
		if run.Get(k) == 0 {
			run.Inconclusive("nothing observed for %s", k)
		}
	}
	// a distinct set that spans both levels
	run.Assume("BIP32 'IL >= n / key = 0' (probability 2^-127) is only reportable if it occurs")
	run.Assume("the password->entropy step of the N-word BIP39 mode and the type-3 hash chain are gocoin-specific; the model pins them to the addresses embedded in /repo/wallet/wallet_test.go")
	run.Assume("interactive prompts are not driven except the BIP39 passphrase prompt fed through stdin (ASCII and NFKD-stable non-ASCII passphrases); passwords come from .secret or -stdin")
	run.Assume("in Litecoin mode bech32 addresses are expected with hrp bc/tb as gocoin prints them (no ltc hrp support)")
	run.Assume("signing itself is C13's subject; here 'the key the wallet signs with' is the key of `-dump`, checked to own the listed address")
	os.RemoveAll(tmp)
	run.Finish("each case = one key listed by the wallet binary (address, WIF, label, xpub relation checked against refhd/refaddr) or one library-level derivation step / bip39 / key-codec call compared with the model; distinct_nontrivial = distinct (path,index,seed) library derivations", "evaluations", "lib_derivations", run.N(20000, 1000000))
}

func cleanEnv() []string {
	var out []string
	for _, e := range os.Environ() {
		if strings.HasPrefix(e, "GOCOIN_WALLET_CONFIG=") || strings.HasPrefix(e, "GOFLAGS=") {
			continue
		}
		out = append(out, e)
	}
	return out
}

// ---------------------------------------------------------------------------------------------
// wallet scenarios

type scenario struct {
	ID         int
	Pass       []byte // content of .secret (or stdin)
	SeedPrefix string // cfg seed=
	Type       int
	HDPath     string
	HDSubs     int
	Bip39      int    // 0, 12..24, -1
	Mnemonic   string // canonical mnemonic when Bip39 == -1 (Pass is a messy rendering of it)
	P39        string // BIP39 passphrase fed to the -p39 prompt ("" = switch not used)
	Scrypt     int
	KeyCnt     int
	AType      string
	Testnet    bool
	Litecoin   bool
	ViaFlags   bool
	ViaStdin   bool
	Overflow   string // "", "last" or "sub": index arithmetic crosses 2^31
	PassFamily string
}

func (s *scenario) family() string {
	f := fmt.Sprintf("type%d", s.Type)
	if s.Type == 4 {
		switch {
		case s.Bip39 == -1:
			f += "-mnemonic"
			if s.P39 != "" {
				f += "+passphrase"
			}
		case s.Bip39 > 0:
			f += fmt.Sprintf("-bip39x%d", s.Bip39)
		default:
			f += "-rawseed"
		}
	}
	if s.Scrypt > 0 {
		f += "+scrypt"
	}
	if s.Overflow != "" {
		f += "+overflow-" + s.Overflow
	}
	return f
}

func (s *scenario) configKey() string {
	return fmt.Sprint(s.family(), s.HDPath, s.HDSubs, s.AType, s.Testnet, s.Litecoin, s.ViaFlags, s.ViaStdin, s.SeedPrefix != "", s.PassFamily, s.KeyCnt)
}

func (s *scenario) describe() map[string]interface{} {
	return map[string]interface{}{"id": s.ID, "pass_hex": hex.EncodeToString(s.Pass), "seed_prefix": s.SeedPrefix, "type": s.Type, "hdpath": s.HDPath,
		"hdsubs": s.HDSubs, "bip39": s.Bip39, "p39": s.P39, "scrypt": s.Scrypt, "keycnt": s.KeyCnt, "atype": s.AType, "testnet": s.Testnet,
		"litecoin": s.Litecoin, "via_flags": s.ViaFlags, "via_stdin": s.ViaStdin, "overflow": s.Overflow, "pass_family": s.PassFamily}
}

func genPassword(r *vlib.Rand) ([]byte, string) {
	switch r.Intn(9) {
	case 0, 1:
		n := 1 + r.Intn(40)
		b := make([]byte, n)
		for i := range b {
			b[i] = byte(33 + r.Intn(94))
		}
		return b, "ascii"
	case 2:
		words := []string{"correct", "horse", "battery", "staple", "Gocoin", "2024", "!", "pass phrase"}
		var p []string
		for i := 0; i < 2+r.Intn(5); i++ {
			p = append(p, words[r.Intn(len(words))])
		}
		return []byte(strings.Join(p, " ")), "ascii-with-spaces"
	case 3:
		return r.Bytes(1 + r.Intn(64)), "random-bytes"
	case 4:
		b := []byte("za\u017c\u00f3\u0142\u0107 g\u0119\u015bl\u0105 ja\u017a\u0144 \u2603 \u30d1\u30b9\u30ef\u30fc\u30c9")
		return b[:len(b)-r.Intn(5)], "utf8"
	case 5:
		b := []byte("password\n")
		if r.Bool() {
			b = []byte("password\r\n")
		}
		return b, "trailing-newline"
	case 6:
		b := r.Bytes(1024)
		return b, "1024-bytes"
	case 7:
		return []byte{byte(r.Intn(256))}, "one-byte"
	default:
		b := r.Bytes(2 + r.Intn(30))
		b[r.Intn(len(b))] = 0
		return b, "with-nul"
	}
}

func genPath(r *vlib.Rand, keycnt, subs int) string {
	depth := 1 + r.Intn(6)
	if r.Intn(4) == 0 {
		common := []string{"m/0'", "m/0/0", "m/0'/0'/0'", "m/0'/0/0", "m/44'/0'/0'/0", "m/84'/0'/0'/0/0", "m/49'/1'/0'/0/0", "m/86'/0'/0'/1/0", "m/0"}
		return common[r.Intn(len(common))]
	}
	p := "m"
	for d := 0; d < depth; d++ {
		var v uint32
		switch r.Intn(6) {
		case 0:
			v = 0
		case 1:
			v = uint32(r.Intn(100))
		case 2:
			v = uint32(r.U32() & 0x7fffffff)
		case 3:
			v = 0x7fffffff
		default:
			v = uint32(r.Intn(3))
		}
		// leave room for key counts / sub accounts below 2^31
		room := uint32(0)
		if d == depth-1 {
			room = uint32(keycnt)
		} else if d == depth-2 {
			room = uint32(subs)
		}
		if v > 0x7fffffff-room {
			v = 0x7fffffff - room
		}
		p += "/" + fmt.Sprint(v)
		if r.Intn(2) == 0 {
			p += "'"
		}
	}
	return p
}

func messyMnemonic(r *vlib.Rand, m string) []byte {
	ws := strings.Split(m, " ")
	var sb strings.Builder
	style := r.Intn(6)
	for i, w := range ws {
		switch style {
		case 0: // canonical
			if i > 0 {
				sb.WriteString(" ")
			}
		case 1: // numbered list
			if i > 0 {
				sb.WriteString("\n")
			}
			sb.WriteString(fmt.Sprintf("%d. ", i+1))
		case 2: // commas
			if i > 0 {
				sb.WriteString(", ")
			}
		case 3: // double spaces, trailing newline
			if i > 0 {
				sb.WriteString("  ")
			}
		case 4: // upper case
			if i > 0 {
				sb.WriteString(" ")
			}
			w = strings.ToUpper(w)
		default: // tabs and mixed case
			if i > 0 {
				sb.WriteString("\t")
			}
			if r.Bool() {
				w = strings.ToUpper(w[:1]) + w[1:]
			}
		}
		sb.WriteString(w)
	}
	if style == 3 || r.Intn(3) == 0 {
		sb.WriteString("\n")
	}
	return []byte(sb.String())
}

func genScenario(r *vlib.Rand, id int) *scenario {
	s := &scenario{ID: id, HDSubs: 1, AType: "p2kh", Type: 4}
	s.KeyCnt = 1 + r.Intn(12)
	if r.Intn(10) == 0 {
		s.KeyCnt = 250 + r.Intn(60) // type-3 byte(i) wrap, larger lists
	}
	s.AType = []string{"p2kh", "p2kh", "segwit", "bech32", "tap", "pks"}[r.Intn(6)]
	s.Testnet = r.Intn(4) == 0
	s.Litecoin = r.Intn(6) == 0
	s.ViaFlags = r.Intn(4) == 0
	s.Pass, s.PassFamily = genPassword(r)
	if r.Intn(4) == 0 {
		s.Type = 3
	}
	if r.Intn(4) == 0 {
		s.Scrypt = 1 + r.Intn(12)
	}
	if r.Intn(4) == 0 {
		pre := []string{"salt", "my seed=with=equals", "#hash", "\u017c\u00f3\u0142w", "x y z", "0"}
		s.SeedPrefix = pre[r.Intn(len(pre))]
	}
	if s.Type == 4 {
		if r.Intn(3) == 0 {
			s.HDSubs = 2 + r.Intn(3)
		}
		if s.KeyCnt > 100 {
			s.HDSubs = 1
		}
		s.HDPath = genPath(r, s.KeyCnt, s.HDSubs)
		switch r.Intn(5) {
		case 0, 1:
			s.Bip39 = []int{12, 15, 18, 21, 24}[r.Intn(5)]
		case 2:
			s.Bip39 = -1
			ent := r.Bytes([]int{16, 20, 24, 28, 32}[r.Intn(5)])
			if r.Intn(6) == 0 {
				for i := range ent {
					ent[i] = 0
				}
			}
			s.Mnemonic, _ = refhd.MnemonicFromEntropy(ent)
			s.Pass = messyMnemonic(r, s.Mnemonic)
			s.PassFamily = "mnemonic"
			s.SeedPrefix = ""
			s.Scrypt = 0 // refused by the wallet in this mode
			if r.Intn(2) == 0 {
				// (the non-ASCII ones have no Unicode decomposition, so NFKD leaves them alone; their UTF-8 encodings end in
				// bytes 0x82, 0x9f, 0x8c, 0xb8, 0x86: a typed passphrase is a byte string, whatever its last byte)
				s.P39 = []string{"TREZOR", "correct horse", "p", "with trailing space ", "1234567890", "has\u0142o", "stra\u00dfe\u00df", "\u043f\u0430\u0440\u043e\u043b\u044c", "l\u00f8s\u00f8", "\u5bc6\u7801\u5bc6"}[r.Intn(10)]
				s.P39 = strings.TrimRight(s.P39, " ") // the prompt reader strips trailing control chars only; keep it simple
			}
		}
		// index arithmetic across 2^31 (rare, dedicated)
		if s.Bip39 != -1 && r.Intn(12) == 0 {
			s.KeyCnt = 2 + r.Intn(4) // 2 = the valid neighbour: the last key sits exactly on index 2^31-1
			h := ""
			if r.Bool() {
				h = "'"
			}
			if r.Bool() {
				s.Overflow = "last"
				s.HDSubs = 1
				s.HDPath = fmt.Sprintf("m/%d'/%d%s", r.Intn(3), 0x7fffffff-1, h)
			} else {
				s.Overflow = "sub"
				s.HDSubs = 2 + r.Intn(2) // 2 = the valid neighbour
				s.HDPath = fmt.Sprintf("m/%d%s/%d", 0x7fffffff-1, h, r.Intn(5))
			}
		}
	}
	if s.P39 == "" && r.Intn(5) == 0 {
		s.ViaStdin = true
	}
	return s
}

type expKey struct {
	priv  []byte
	pub   []byte
	label string
	path  []uint32
}

type expectation struct {
	keys       []expKey
	xtra       []string // expected "# ..." lines after the type line
	rootXprv   string
	leafXprv   string
	mnemonic   string
	verPub     byte
	verScript  byte
	hrp        string
	leafPub    *refhd.ExtKey // neutered leaf of sub-account 0 (when last is not hardened)
	last       uint32
	invalidIdx []string // labels whose index arithmetic left the BIP32 range (Overflow scenarios)
}

const scryptSalt = "Gocoin scrypt password salt"

func pathString(p []uint32) string {
	s := "m"
	for _, e := range p {
		s += "/" + fmt.Sprint(e&0x7fffffff)
		if e >= refhd.Hardened {
			s += "'"
		}
	}
	return s
}

func expect(sc *scenario) (*expectation, error) {
	e := &expectation{verPub: 0, verScript: 5, hrp: "bc"}
	if sc.Testnet {
		e.verPub, e.verScript, e.hrp = 111, 196, "tb"
	} else if sc.Litecoin {
		e.verPub, e.verScript = 48, 50
	}
	pass := append([]byte(sc.SeedPrefix), sc.Pass...)
	if sc.Scrypt > 0 {
		var err error
		pass, err = refhd.Scrypt(pass, []byte(scryptSalt), 1<<uint(sc.Scrypt), 8, 1, 32)
		if err != nil {
			return nil, err
		}
	}
	addKey := func(priv []byte, label string, path []uint32) error {
		p, err := refhd.PubFromPriv(priv)
		if err != nil {
			return err
		}
		e.keys = append(e.keys, expKey{priv: priv, pub: p.SerializeCompressed(), label: label, path: path})
		return nil
	}
	if sc.Type == 3 {
		for i, k := range refhd.Type3Keys(pass, sc.KeyCnt) {
			if err := addKey(k, fmt.Sprint("TypC ", i+1), nil); err != nil {
				return nil, err
			}
		}
		return e, nil
	}
	var seed []byte
	switch {
	case sc.Bip39 == 0:
		seed = pass
	case sc.Bip39 > 0:
		m, err := refhd.MnemonicFromEntropy(refhd.GocoinBip39Entropy(pass, sc.Bip39))
		if err != nil {
			return nil, err
		}
		e.mnemonic = m
		e.xtra = append(e.xtra, fmt.Sprint("Based on ", sc.Bip39, " BIP39 words"))
		seed = refhd.SeedFromMnemonic(m, "")
	default:
		if _, r := refhd.EntropyFromMnemonic(sc.Mnemonic); r != "" {
			return nil, fmt.Errorf("generator produced an invalid mnemonic: %s", r)
		}
		e.mnemonic = sc.Mnemonic
		seed = refhd.SeedFromMnemonic(sc.Mnemonic, sc.P39)
	}
	ver := uint32(refhd.VerXprv)
	switch {
	case !sc.Testnet && sc.AType == "segwit":
		ver = refhd.VerYprv
	case !sc.Testnet && (sc.AType == "bech32" || sc.AType == "tap"):
		ver = refhd.VerZprv
	case sc.Testnet && sc.AType == "segwit":
		ver = refhd.VerUprv
	case sc.Testnet && (sc.AType == "bech32" || sc.AType == "tap"):
		ver = refhd.VerVprv
	case sc.Testnet:
		ver = refhd.VerTprv
	}
	master, err := refhd.Master(seed, ver)
	if err != nil {
		return nil, err
	}
	path, err := refhd.ParsePath(sc.HDPath)
	if err != nil {
		return nil, err
	}
	parent := path[:len(path)-1]
	last := path[len(path)-1]
	e.last = last
	anyHard := false
	for _, x := range path {
		if x >= refhd.Hardened {
			anyHard = true
		}
	}
	e.rootXprv = master.String()
	subs := 1
	if len(parent) > 0 {
		subs = sc.HDSubs
	}
	for sub := 0; sub < subs; sub++ {
		pp := append([]uint32{}, parent...)
		subValid := true
		if len(pp) > 0 {
			base := pp[len(pp)-1]
			// BIP32 child numbers of one kind live in [0, 2^31): base+sub must stay inside
			if (base&0x7fffffff)+uint32(sub) > 0x7fffffff {
				subValid = false
			}
			pp[len(pp)-1] = base + uint32(sub) // what uint32 arithmetic does; only used to follow the wallet in overflow scenarios
		}
		leaf, err := master.Derive(pp)
		if err != nil {
			return nil, err
		}
		if sub == 0 {
			e.leafXprv = leaf.String()
			if !anyHard {
				e.xtra = append(e.xtra, "Root: "+master.Neuter().String())
			}
			if last < refhd.Hardened {
				if len(parent) > 0 {
					pr, err := master.Derive(parent[:len(parent)-1])
					if err != nil {
						return nil, err
					}
					e.xtra = append(e.xtra, "Prnt: "+pr.Neuter().String())
				}
				e.xtra = append(e.xtra, "Leaf: "+leaf.Neuter().String())
				e.leafPub = leaf.Neuter()
			}
		}
		for i := 0; i < sc.KeyCnt; i++ {
			idx := last + uint32(i)
			valid := subValid && (last&0x7fffffff)+uint32(i) <= 0x7fffffff
			k, err := leaf.Child(idx)
			if err != nil {
				return nil, err
			}
			full := append(append([]uint32{}, pp...), idx)
			label := pathString(full)
			if err := addKey(k.Priv, label, full); err != nil {
				return nil, err
			}
			if !valid {
				e.invalidIdx = append(e.invalidIdx, label)
			}
		}
	}
	return e, nil
}

func (e *expectation) address(sc *scenario, k *expKey) string {
	h := refaddr.Hash160(k.pub)
	switch sc.AType {
	case "p2kh":
		return refaddr.Base58CheckEncode(append([]byte{e.verPub}, h...))
	case "segwit":
		return refaddr.Base58CheckEncode(append([]byte{e.verScript}, refaddr.Hash160(append([]byte{0, 20}, h...))...))
	case "bech32":
		s, _ := refaddr.SegwitEncode(e.hrp, 0, h)
		return s
	case "tap":
		s, _ := refaddr.SegwitEncode(e.hrp, 1, k.pub[1:])
		return s
	case "pks":
		return hex.EncodeToString(k.pub)
	}
	return ""
}

func (e *expectation) p2pkh(k *expKey) string {
	return refaddr.Base58CheckEncode(append([]byte{e.verPub}, refaddr.Hash160(k.pub)...))
}

type scOutcome struct {
	vios         []vio
	counts       map[string]int64
	inconclusive []string
	broken       []string
	keysChecked  int
	keyIDs       []string
	firstLine    string
}

type procResult struct {
	stdout, stderr string
	exit           int
	timedOut       bool
}

func runWallet(bin, dir string, args []string, stdin []byte) procResult {
	ctx, cancel := context.WithTimeout(context.Background(), 10*time.Minute)
	defer cancel()
	cmd := exec.CommandContext(ctx, bin, args...)
	cmd.Dir = dir
	cmd.Env = cleanEnv()
	var so, se bytes.Buffer
	cmd.Stdout, cmd.Stderr = &so, &se
	if stdin != nil {
		cmd.Stdin = bytes.NewReader(stdin)
	}
	err := cmd.Run()
	r := procResult{stdout: so.String(), stderr: se.String()}
	if ctx.Err() == context.DeadlineExceeded {
		r.timedOut = true
	}
	if err != nil {
		if ee, ok := err.(*exec.ExitError); ok {
			r.exit = ee.ExitCode()
		} else {
			r.exit = -2
		}
	}
	return r
}

var scryptLine = regexp.MustCompile(`(?m)^Running scrypt function with complexity \d+ \.\.\. took .*$`)
var wordRe = regexp.MustCompile(`\b(\d+): ([a-z]+)`)

func setupDir(dir string, sc *scenario, others string) ([]string, []byte, error) {
	if err := os.MkdirAll(dir, 0o755); err != nil {
		return nil, nil, err
	}
	var args []string
	var cfg strings.Builder
	opt := func(cfgKey, flag, val string) {
		if sc.ViaFlags && flag != "" {
			args = append(args, "-"+flag+"="+val)
		} else {
			cfg.WriteString(cfgKey + "=" + val + "\n")
		}
	}
	cfg.WriteString("# generated by /verif/mon/c14\n")
	opt("type", "type", fmt.Sprint(sc.Type))
	opt("keycnt", "n", fmt.Sprint(sc.KeyCnt))
	if sc.Type == 4 {
		opt("hdpath", "hdpath", sc.HDPath)
		if sc.HDSubs != 1 {
			opt("hdsubs", "hdsubs", fmt.Sprint(sc.HDSubs))
		}
		if sc.Bip39 != 0 {
			opt("bip39", "bip39", fmt.Sprint(sc.Bip39))
		}
	}
	if sc.AType != "p2kh" {
		opt("atype", "atype", sc.AType)
	}
	if sc.Testnet {
		opt("testnet", "t", "true")
	}
	if sc.Litecoin {
		opt("litecoin", "ltc", "true")
	}
	if sc.Scrypt > 0 {
		opt("scrypt", "scrypt", fmt.Sprint(sc.Scrypt))
	}
	if sc.SeedPrefix != "" {
		cfg.WriteString("seed=" + sc.SeedPrefix + "\n")
	}
	if err := os.WriteFile(filepath.Join(dir, "wallet.cfg"), []byte(cfg.String()), 0o600); err != nil {
		return nil, nil, err
	}
	var stdin []byte
	if sc.ViaStdin {
		args = append(args, "-stdin")
		stdin = sc.Pass
	} else {
		if err := os.WriteFile(filepath.Join(dir, ".secret"), sc.Pass, 0o600); err != nil {
			return nil, nil, err
		}
		if sc.P39 != "" {
			args = append(args, "-p39")
			stdin = []byte(sc.P39 + "\n")
		}
	}
	if others != "" {
		if err := os.WriteFile(filepath.Join(dir, ".others"), []byte(others), 0o600); err != nil {
			return nil, nil, err
		}
	}
	return args, stdin, nil
}

type listed struct {
	addr, label string
}

// parse "addr label..." lines and "# ..." lines of wallet.txt / stdout
func parseListing(txt string) (hdr []string, rows []listed) {
	for _, ln := range strings.Split(txt, "\n") {
		ln = strings.TrimRight(ln, "\r")
		if ln == "" {
			continue
		}
		if strings.HasPrefix(ln, "# ") {
			hdr = append(hdr, ln[2:])
			continue
		}
		f := strings.SplitN(ln, " ", 2)
		if len(f) == 2 {
			rows = append(rows, listed{f[0], f[1]})
		}
	}
	return
}

func runScenario(bin, dir string, sc *scenario) (o scOutcome) {
	o.counts = map[string]int64{}
	fam := sc.family()
	wit := func(extra map[string]interface{}) map[string]interface{} {
		w := map[string]interface{}{"scenario": sc.describe()}
		for k, v := range extra {
			w[k] = v
		}
		return w
	}
	viol := func(class, what string, extra map[string]interface{}) {
		o.vios = append(o.vios, vio{class, what, wit(extra)})
	}
	exp, err := expect(sc)
	if err != nil {
		if err == refhd.ErrInvalidChild {
			o.inconclusive = append(o.inconclusive, "BIP32 invalid child in the model (2^-127 event)")
		} else {
			o.broken = append(o.broken, fmt.Sprintf("model cannot derive scenario %v: %v", sc.describe(), err))
		}
		return
	}

	// --- run 1: -l ; run 2 (other directory): -l again -> determinism
	var outs [2]procResult
	var txts [2]string
	for k := 0; k < 2; k++ {
		d := filepath.Join(dir, fmt.Sprint("run", k))
		args, stdin, err := setupDir(d, sc, "")
		if err != nil {
			o.broken = append(o.broken, "cannot set up scenario directory: "+err.Error())
			return
		}
		outs[k] = runWallet(bin, d, append(args, "-l"), stdin)
		if outs[k].timedOut {
			o.inconclusive = append(o.inconclusive, "wallet -l watchdog")
			return
		}
		b, _ := os.ReadFile(filepath.Join(d, "wallet.txt"))
		txts[k] = string(b)
		o.counts["process_runs"]++
	}
	if outs[0].exit != 0 && len(exp.invalidIdx) > 0 && strings.Contains(outs[0].stderr, "exceeds the BIP32 index range") && txts[0] == "" {
		// the configuration asks for child numbers beyond 2^31-1 of their kind: refusing it (nothing listed) is the
		// correct outcome (since the repair in /repo; listing such keys is class hd-index-overflow/*)
		o.counts["overflow_scenarios_refused"]++
		return
	}
	if outs[0].exit != 0 {
		// triage: the wallet verifies every key pair while listing and aborts on a bad one; is it
		// the compressed-public-key parity defect of lib/secp256k1 (root-cause class pubkey-parity/*)?
		for i := range exp.keys {
			if g := gocoinPub(exp.keys[i].priv); len(g) == 33 && !bytes.Equal(g, exp.keys[i].pub) && bytes.Equal(g[1:], exp.keys[i].pub[1:]) {
				viol("pubkey-parity/wallet-aborts-listing", "the wallet cannot list its keys: a compressed public key gets the wrong 02/03 prefix and the wallet's own VerifyKeyPair aborts",
					map[string]interface{}{"index": i, "private_key": hex.EncodeToString(exp.keys[i].priv), "gocoin_pubkey": hex.EncodeToString(g), "model_pubkey": hex.EncodeToString(exp.keys[i].pub), "stderr": vlib.Tail([]byte(outs[0].stderr), 600)})
				o.counts["keys_checked"] += int64(i)
				o.counts["listing_aborted_by_parity"]++
				return
			}
		}
		viol(fmt.Sprintf("wallet-exit/list/%s", fam), fmt.Sprintf("wallet -l exits with %d", outs[0].exit), map[string]interface{}{"stderr": vlib.Tail([]byte(outs[0].stderr), 1500), "stdout": vlib.Tail([]byte(outs[0].stdout), 1500)})
		return
	}
	s0 := scryptLine.ReplaceAllString(outs[0].stdout, "")
	s1 := scryptLine.ReplaceAllString(outs[1].stdout, "")
	if s0 != s1 || txts[0] != txts[1] || outs[0].exit != outs[1].exit {
		viol("nondeterministic/list/"+fam, "two runs with the same password and configuration list different output", map[string]interface{}{"run0": vlib.Tail([]byte(s0), 2000), "run1": vlib.Tail([]byte(s1), 2000)})
		return
	}
	o.counts["determinism_pairs"]++
	hdr, rows := parseListing(txts[0])
	_, rowsOut := parseListing(s0)
	// stdout repeats the rows (plus informational lines): every wallet.txt row must be there in order
	j := 0
	for _, r := range rowsOut {
		if j < len(rows) && r == rows[j] {
			j++
		}
	}
	if j != len(rows) {
		viol("stdout-vs-wallet.txt/"+fam, "address rows on stdout differ from wallet.txt", map[string]interface{}{"stdout": vlib.Tail([]byte(s0), 2000), "wallet_txt": vlib.Tail([]byte(txts[0]), 2000)})
	}
	if len(hdr) == 0 || hdr[0] != fmt.Sprint("Deterministic Walet Type ", sc.Type) {
		viol("header/"+fam, "wallet.txt does not start with the wallet type line", map[string]interface{}{"wallet_txt": vlib.Tail([]byte(txts[0]), 500)})
		return
	}
	hdr = hdr[1:]
	if len(rows) > 0 {
		o.firstLine = rows[0].addr + " " + rows[0].label
	}

	// --- run 3: -dump * (same directory as run 0)
	d0 := filepath.Join(dir, "run0")
	args, stdin, _ := setupDir(d0, sc, "")
	dump := runWallet(bin, d0, append(args, "-dump", "*"), stdin)
	o.counts["process_runs"]++
	if dump.timedOut {
		o.inconclusive = append(o.inconclusive, "wallet -dump watchdog")
		return
	}
	if dump.exit != 0 {
		viol("wallet-exit/dump/"+fam, fmt.Sprintf("wallet -dump exits with %d", dump.exit), map[string]interface{}{"stderr": vlib.Tail([]byte(dump.stderr), 1500)})
		return
	}
	type dumped struct {
		wif, addr, label string
		key              []byte
	}
	var dumps []dumped
	for _, ln := range strings.Split(dump.stdout, "\n") {
		f := strings.SplitN(strings.TrimRight(ln, "\r"), " ", 3)
		if len(f) != 3 {
			continue
		}
		ver, key, compr, reason := refaddr.WIFDecode(f[0])
		if reason != "" {
			continue
		}
		if ver != exp.verPub+0x80 || !compr {
			viol("wif-version/"+fam, "dumped WIF has an unexpected version byte or is not flagged compressed", map[string]interface{}{"line": ln, "version": ver, "compressed": compr})
		}
		dumps = append(dumps, dumped{f[0], f[1], f[2], key})
	}

	// --- the oracle proper
	if len(rows) != len(exp.keys) || len(dumps) != len(exp.keys) {
		viol("key-count/"+fam, fmt.Sprintf("wallet lists %d addresses and dumps %d keys, configuration asks for %d", len(rows), len(dumps), len(exp.keys)), map[string]interface{}{"wallet_txt": vlib.Tail([]byte(txts[0]), 1500)})
		return
	}
	overflowSeen := false
	firstKeyMismatch := -1
	for i := range exp.keys {
		ek := &exp.keys[i]
		o.keysChecked++
		o.keyIDs = append(o.keyIDs, hex.EncodeToString(ek.pub[:8]))
		// (a) dumped key == model derivation
		if !bytes.Equal(dumps[i].key, ek.priv) {
			if firstKeyMismatch < 0 {
				firstKeyMismatch = i
			}
			continue
		}
		// (b) WIF string, P2PKH address and label of the dump line
		if w := refaddr.WIFEncode(exp.verPub+0x80, ek.priv, true); dumps[i].wif != w {
			viol("wif-string/"+fam, "dumped WIF string differs from the model's encoding of the same key", map[string]interface{}{"index": i, "wallet": dumps[i].wif, "model": w})
		}
		if a := exp.p2pkh(ek); dumps[i].addr != a {
			viol("dump-address/"+fam, "P2PKH address printed next to a dumped key is not the address of that key", map[string]interface{}{"index": i, "wallet": dumps[i].addr, "model": a, "wif": dumps[i].wif})
		}
		// (c) listed address is the address of the dumped key, in the configured form
		want := exp.address(sc, ek)
		if rows[i].addr != want {
			viol(fmt.Sprintf("listed-address/%s/%s", sc.AType, netName(sc)), "listed deposit address is not the address of the key the wallet holds at that position", map[string]interface{}{"index": i, "wallet": rows[i].addr, "model": want, "wif": dumps[i].wif})
		}
		// (d) labels
		wantLabel := ek.label
		isInvalid := false
		for _, l := range exp.invalidIdx {
			if l == ek.label {
				isInvalid = true
			}
		}
		if isInvalid {
			overflowSeen = true
		} else {
			if dumps[i].label != wantLabel {
				viol("label/dump/"+fam, "label of a dumped key does not name the derivation path of that key", map[string]interface{}{"index": i, "wallet": dumps[i].label, "model": wantLabel})
			}
			wl := wantLabel
			if sc.AType == "segwit" || sc.AType == "bech32" || sc.AType == "tap" {
				wl += " (" + exp.p2pkh(ek) + ")"
			}
			if rows[i].label != wl {
				viol("label/list/"+fam, "label of a listed address does not name the derivation path / P2PKH form of that key", map[string]interface{}{"index": i, "wallet": rows[i].label, "model": wl})
			}
		}
		// (e) xpub relation: the Leaf xpub printed by the wallet derives this public key
		if exp.leafPub != nil && ek.path != nil && len(ek.path) > 0 {
			idx := ek.path[len(ek.path)-1]
			samePar := pathString(ek.path[:len(ek.path)-1]) == pathString(exp.keys[0].path[:len(exp.keys[0].path)-1])
			if idx < refhd.Hardened && samePar {
				for _, h := range hdr {
					if strings.HasPrefix(h, "Leaf: ") {
						xp, err := refhd.ParseExtKey(h[6:])
						if err != nil {
							viol("xpub-unparsable/"+fam, "Leaf xpub printed by the wallet is not a valid extended key: "+err.Error(), map[string]interface{}{"line": h})
							break
						}
						c, err := xp.Child(idx)
						if err != nil || !bytes.Equal(c.Pub, ek.pub) {
							viol("xpub-child/"+fam, "public derivation from the printed Leaf xpub does not give the public key of the listed key", map[string]interface{}{"index": i, "xpub": h[6:], "child": idx})
						}
						o.counts["xpub_children_checked"]++
					}
				}
			}
		}
	}
	o.counts["keys_checked"] += int64(o.keysChecked)
	if firstKeyMismatch >= 0 {
		viol("key-mismatch/"+fam, "a key held by the wallet differs from the model's derivation from the same password and configuration", map[string]interface{}{
			"first_index": firstKeyMismatch, "wallet_key": hex.EncodeToString(dumps[firstKeyMismatch].key), "model_key": hex.EncodeToString(exp.keys[firstKeyMismatch].priv), "label": dumps[firstKeyMismatch].label, "model_path": exp.keys[firstKeyMismatch].label})
	}
	if overflowSeen {
		o.counts["overflow_scenarios_observed"]++
		viol("hd-index-overflow/"+sc.Overflow, "index arithmetic crosses 2^31: the wallet lists keys whose child number left the BIP32 range of the configured (non-)hardened level instead of stopping", map[string]interface{}{"labels_out_of_range": exp.invalidIdx, "wallet_txt": vlib.Tail([]byte(txts[0]), 1200)})
	}
	// (f) "# ..." lines: BIP39 note and xpubs
	if strings.Join(hdr, "\n") != strings.Join(exp.xtra, "\n") {
		cls := "xpub-lines/" + fam
		viol(cls, "the '# Root/Prnt/Leaf' extended public keys (or notes) in wallet.txt differ from the model", map[string]interface{}{"wallet": hdr, "model": exp.xtra})
	} else {
		o.counts["xpub_lines_checked"] += int64(len(hdr))
	}

	// --- run 3b: the wallet's own address -> key lookup (what signing uses): -dump <listed address>
	if firstKeyMismatch < 0 && sc.AType != "pks" && len(rows) > 0 {
		i := int(sc.ID*7+len(sc.Pass)) % len(rows)
		one := runWallet(bin, d0, append(append([]string{}, args...), "-dump", rows[i].addr), stdin)
		o.counts["process_runs"]++
		enc, pubhex := "", ""
		for _, ln := range strings.Split(one.stdout, "\n") {
			if strings.HasPrefix(ln, "Private encoded: ") {
				enc = strings.TrimSpace(ln[len("Private encoded: "):])
			}
			if strings.HasPrefix(ln, "Public hexdump: ") {
				pubhex = strings.TrimSpace(ln[len("Public hexdump: "):])
			}
		}
		if one.exit != 0 || enc != dumps[i].wif || pubhex != hex.EncodeToString(exp.keys[i].pub) {
			viol("address-lookup/"+sc.AType+"/"+netName(sc), "looking up a listed address (-dump <address>) does not return the key listed at that position",
				map[string]interface{}{"index": i, "address": rows[i].addr, "wallet_wif": enc, "expected_wif": dumps[i].wif, "wallet_pub": pubhex, "stdout": vlib.Tail([]byte(one.stdout), 600), "stderr": vlib.Tail([]byte(one.stderr), 400)})
		} else {
			o.counts["address_lookups_checked"]++
		}
	}

	// --- run 4: -xprv / -words
	if sc.Type == 4 {
		a2 := append(append([]string{}, args...), "-xprv")
		if sc.Bip39 != 0 {
			a2 = append(a2, "-words")
		}
		xr := runWallet(bin, d0, a2, stdin)
		o.counts["process_runs"]++
		if xr.exit != 0 || xr.timedOut {
			viol("wallet-exit/xprv/"+fam, fmt.Sprintf("wallet -xprv exits with %d", xr.exit), map[string]interface{}{"stderr": vlib.Tail([]byte(xr.stderr), 1500)})
		} else {
			root, leaf := "", ""
			for _, ln := range strings.Split(xr.stdout, "\n") {
				if strings.HasPrefix(ln, "Root: ") {
					root = strings.TrimSpace(ln[6:])
				}
				if strings.HasPrefix(ln, "Leaf: ") {
					leaf = strings.TrimSpace(ln[6:])
				}
			}
			if root != exp.rootXprv {
				viol("xprv/root/"+fam, "Root extended private key differs from the model", map[string]interface{}{"wallet": root, "model": exp.rootXprv})
			}
			if leaf != exp.leafXprv {
				viol("xprv/leaf/"+fam, "Leaf extended private key differs from the model", map[string]interface{}{"wallet": leaf, "model": exp.leafXprv})
			}
			// re-import of the exported xprv: parse and derive the first key again
			if xp, err := refhd.ParseExtKey(leaf); err == nil && len(exp.keys) > 0 {
				if c, err := xp.Child(exp.keys[0].path[len(exp.keys[0].path)-1]); err == nil && !bytes.Equal(c.Priv, dumps[0].key) {
					viol("xprv-reimport/"+fam, "the exported Leaf xprv does not re-derive the first wallet key", nil)
				}
				o.counts["xprv_reimports"]++
			}
			if sc.Bip39 != 0 {
				var ws []string
				for _, m := range wordRe.FindAllStringSubmatch(xr.stdout, -1) {
					n, _ := strconv.Atoi(m[1])
					if n == len(ws)+1 {
						ws = append(ws, m[2])
					}
				}
				got := strings.Join(ws, " ")
				if _, r := refhd.EntropyFromMnemonic(got); r != "" {
					viol("mnemonic-invalid/"+fam, "the mnemonic printed by -words is not a valid BIP39 mnemonic: "+r, map[string]interface{}{"wallet": got})
				} else if got != exp.mnemonic {
					viol("mnemonic-mismatch/"+fam, "the mnemonic printed by -words differs from the model", map[string]interface{}{"wallet": got, "model": exp.mnemonic})
				} else {
					o.counts["mnemonics_checked"]++
				}
			}
		}
	}

	// --- run 5: re-import of the dumped WIFs through .others in an unrelated wallet
	if firstKeyMismatch < 0 && len(dumps) > 0 {
		n := len(dumps)
		if n > 25 {
			n = 25
		}
		var ob strings.Builder
		for i := 0; i < n; i++ {
			ob.WriteString(dumps[i].wif + " imported" + fmt.Sprint(i) + "\n")
		}
		other := &scenario{Type: 3, KeyCnt: 1, AType: "p2kh", Testnet: sc.Testnet, Litecoin: sc.Litecoin, Pass: []byte("another wallet"), HDSubs: 1}
		d2 := filepath.Join(dir, "reimport")
		a3, _, err := setupDir(d2, other, ob.String())
		if err == nil {
			rr := runWallet(bin, d2, append(a3, "-l"), nil)
			o.counts["process_runs"]++
			b, _ := os.ReadFile(filepath.Join(d2, "wallet.txt"))
			_, rws := parseListing(string(b))
			ok := rr.exit == 0 && len(rws) == n+1
			for i := 0; ok && i < n; i++ {
				if rws[i].addr != exp.p2pkh(&exp.keys[i]) || rws[i].label != "imported"+fmt.Sprint(i) {
					ok = false
				}
			}
			if !ok {
				viol("wif-reimport/"+fam, "WIF keys exported by -dump and imported through .others do not list the same addresses", map[string]interface{}{"others": ob.String(), "wallet_txt": vlib.Tail(b, 1500), "stderr": vlib.Tail([]byte(rr.stderr), 800)})
			} else {
				o.counts["wif_reimports"] += int64(n)
			}
		}
	}
	return
}

func gocoinPub(key []byte) (pub []byte) {
	defer func() { recover() }()
	return btc.PublicFromPrivate(key, true)
}

func netName(sc *scenario) string {
	switch {
	case sc.Testnet && sc.Litecoin:
		return "ltc-testnet"
	case sc.Testnet:
		return "testnet"
	case sc.Litecoin:
		return "ltc"
	}
	return "mainnet"
}
