// C04 — no connected block creates money or spends what is not spendable (see mon/rulesmon).
package main

import "verif/mon/rulesmon"

func main() { rulesmon.Main("C04") }
