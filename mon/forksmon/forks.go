// Package forksmon implements the C06 monitor: random block trees (competing branches, ties,
// branches that turn out invalid only when connected, spends crossing fork points) are delivered in
// random parent-before-child orders to the real node and to the reference; after every delivery the
// tip and the full UTXO dump are compared with the reference (which recomputes by replay).
package forksmon

import (
	"fmt"
	"github.com/piotrnar/gocoin/lib/btc"
	"github.com/piotrnar/gocoin/lib/chain"
	"os"
	"strings"
	"sync"
	"time"

	"github.com/piotrnar/gocoin/lib/utxo"
	"verif/lib/vlib"
	"verif/mon/chainsim"
	"verif/ref/refchain"
)

type planned struct {
	twin   *refchain.Block // CVE-2012-2459 mutation of b (same header hash, trailing subtree repeated): offered right before b
	b      *refchain.Block
	node   *refchain.Node
	parent *planned // nil = base tip
	kind   string
	done   bool
}

type Config struct {
	Work     bool // testnet rule set with a retarget behind it: per-block work differs (min-difficulty vs real)
	Name     string
	Testnet  bool
	Compress bool
	FastSave bool
	Purge    bool // utxo.UTXO_PURGE_UNSPENDABLE (a freshly configured client's default)
	// HeaderFirst: blocks handed over the way the client does it (chainsim.NodeOpts.HeaderFirst)
	HeaderFirst bool
}

// WorkConfig: branches with different per-block work (longer-but-lighter vs shorter-but-heavier).
var WorkConfig = Config{Name: "testnet-work", Testnet: true, Work: true, FastSave: true}

func Configs() []Config {
	return []Config{{Name: "plain"}, {Name: "compressed-fastsave", Compress: true, FastSave: true, Purge: true}, {Name: "testnet-fastsave", Testnet: true, FastSave: true},
		{Name: "plain-headerfirst", HeaderFirst: true}}
}

// transactions chain.TrustedTxChecker vouches for (installed in ChildFor)
var (
	vouchMu sync.Mutex
	vouched = map[refchain.Hash]bool{}
)

func vouch(id refchain.Hash) {
	vouchMu.Lock()
	vouched[id] = true
	vouchMu.Unlock()
}

// WorkMode: tree blocks randomly get a >20-minute gap (testnet minimum-difficulty block) or a normal gap.
var WorkMode bool

// Focus selects the mix of block kinds: "" = C06 mix, "C05" = mostly header/structure/commitment violators and mutated twins.
var Focus string

func Child(seed int64, tier, cfgName, stateFile string, trees int) {
	ChildFor("C06", seed, tier, cfgName, stateFile, trees)
}

func ChildFor(prop string, seed int64, tier, cfgName, stateFile string, trees int) {
	if prop == "C05" || prop == "C04" {
		Focus = prop
	}
	run := vlib.StartChild(prop, seed, tier)
	defer run.ExportState(stateFile)
	var cfg Config
	for _, c := range append(Configs(), WorkConfig) {
		if c.Name == cfgName {
			cfg = c
		}
	}
	if cfg.FastSave {
		utxo.UTXO_WRITING_TIME_TARGET = 0
	}
	r := vlib.NewRand(uint64(seed)).Fork(prop + "/trees/" + cfgName)
	dir, _ := os.MkdirTemp("", "forks")
	defer os.RemoveAll(dir)
	p := chainsim.DefaultParams(uint64(seed), cfg.Testnet)
	p.BIP34, p.BIP66, p.BIP65, p.CSV, p.Segwit, p.Taproot = 104, 106, 108, 110, 112, 114
	if !cfg.Work && seed%2 == 1 {
		// undo window inside the heights this history reaches (trees grow from ~115 upwards; never deeper than 12 blocks)
		chainsim.UnwindBufLen = uint32(105 + seed%50)
		run.Inc("histories_with_short_undo_window")
	}
	if cfg.Testnet && !cfg.Work {
		chainsim.PoisonOnFree() // record life times as on the client's custom heap: what is freed is overwritten
		run.Inc("histories_with_poison_on_free")
	}
	chainsim.SetPurge(cfg.Purge)
	if cfg.Purge {
		run.Inc("histories_with_purge_unspendable")
	}
	s := chainsim.NewSim(run, r, p, dir, chainsim.NodeOpts{CompressUTXO: cfg.Compress, HeaderFirst: cfg.HeaderFirst})
	defer s.Close()
	g := s.G
	chain.TrustedTxChecker = func(tx *btc.Tx) bool {
		var h refchain.Hash
		copy(h[:], tx.WTxID().Hash[:]) // by wtxid, as the client's checker does: a witness that differs is not what was verified
		vouchMu.Lock()
		defer vouchMu.Unlock()
		return vouched[h]
	}
	if cfg.Work {
		// one full difficulty period of fast coinbase-only blocks: the retarget divides the target by 4;
		// afterwards a block more than 20 minutes after its parent is a minimum-difficulty block
		// (1/4 of the work of a real one)
		g.KeepViews = false
		s.CompareUTXOEvery = 211
		for s.Ref.Tip.Height < refchain.Interval+2 {
			g.NextGap = 1 + uint32(r.Intn(2))
			tip := s.Ref.Tip
			if rr, _, ok := s.Offer(g.Build(chainsim.BlockSpec{Parent: tip}), "work-base"); !ok || rr.Stage != "connected" {
				return
			}
			g.DropView(tip.Hash)
		}
		if s.Ref.Tip.Bits == p.PowLimitBits {
			run.Inconclusive("work config: retarget did not raise the difficulty")
			return
		}
		g.KeepViews = true
		s.CompareUTXOEvery = 1
		WorkMode = true
		for i := 0; i < 12; i++ {
			if rr, _, ok := s.Offer(g.RandomBlock(s.Ref.Tip, 5), "work-base+tx"); !ok || rr.Stage != "connected" {
				return
			}
		}
	}
	// base chain
	for !cfg.Work && s.Ref.Tip.Height < 118 {
		mx := 0
		if s.Ref.Tip.Height >= 101 {
			mx = 5
		}
		b := g.RandomBlock(s.Ref.Tip, mx)
		if rr, _, ok := s.Offer(b, "base"); !ok || rr.Stage != "connected" {
			if ok {
				run.Inconclusive("base block refused by reference: %s", rr.Reason)
			}
			return
		}
	}
	for t := 0; t < trees; t++ {
		if !OneTree(s, run, r, t) {
			return
		}
		if r.Intn(3) == 0 && !operatorCommands(s, run, r, cfg) {
			return
		}
	}
	if d := chainsim.DiffUTXO(s.Ref.Utxo, s.Ref.ReplayTip()); d != "" {
		run.Inconclusive("reference self-check failed: %s", d)
	}
	if cfg.Work {
		run.Count("work_mode_histories", 1)
	}
	run.Count("reorgs_observed", int64(s.Ref.Reorgs))
	run.Count("failed_reorgs_observed", int64(s.Ref.FailedReorgs))
	run.Count("ties_observed", int64(s.Ref.Ties))
	run.Extra("max_reorg_depth_"+cfgName, s.Ref.MaxReorgDepth)
	if run.WantSample() {
		run.Sample(map[string]interface{}{"config": cfg.Name, "final_height": s.Ref.Tip.Height, "reorgs": s.Ref.Reorgs, "failed_reorgs": s.Ref.FailedReorgs,
			"journal_tail": lastN(s.Log, 16)})
	}
}

// operatorCommands: what the text UI lets the operator do between blocks. "undo" (Chain.UndoLastBlock) one to three times,
// then "redo" as often (the block is read back from the block store and committed on top of the tip, as redo_block and
// LocalAcceptBlock do); "purge" (UnspentDB.PurgeUnspendable(true)) on a node that does not purge by itself. After every
// command the tip and the full UTXO dump are compared with the reference: the set after an undo is the replay of the
// parent, after the redos it is what it was.
func operatorCommands(s *chainsim.Sim, run *vlib.Run, r *vlib.Rand, cfg Config) bool {
	ch := s.N.Ch
	cmp := func(what string, want *refchain.Node) bool {
		th, _ := s.N.Tip()
		if th != want.Hash {
			run.Violation("operator/"+what+"/tip", fmt.Sprintf("after %s the tip is %s, expected %s (height %d)", what, th, want.Hash, want.Height),
				map[string]interface{}{"journal_tail": lastN(s.Log, 20)})
			return false
		}
		wu, ok := s.Ref.UtxoAt(want.Hash)
		if !ok {
			run.Inconclusive("operator commands: reference cannot replay %s", want.Hash)
			return false
		}
		if d := chainsim.DiffNodeUTXO(s.N.DumpUTXO(), wu); d != "" {
			run.Violation("operator/"+what+"/utxo", "after "+what+" the UTXO set differs from the replay of the tip: "+d,
				map[string]interface{}{"journal_tail": lastN(s.Log, 20), "tip": want.Hash.String()})
			return false
		}
		run.Inc("operator_command_states_compared")
		return true
	}
	if !cfg.Purge && !chainsim.PurgedByHand && r.Intn(3) == 0 {
		ch.Unspent.PurgeUnspendable(true)
		chainsim.PurgedByHand = true
		run.Inc("operator_purge_commands")
		s.Log = append(s.Log, "operator: purge")
		if !cmp("purge", s.Ref.Tip) {
			return false
		}
	}
	k := 1 + r.Intn(3)
	var undone []*refchain.Node
	at := s.Ref.Tip
	for i := 0; i < k && at.Height > 102; i++ {
		ch.UndoLastBlock()
		undone = append(undone, at)
		at = at.Parent
		s.Log = append(s.Log, "operator: undo -> "+at.Hash.String())
		run.Inc("operator_undo_commands")
		if !cmp("undo", at) {
			return false
		}
	}
	for i := len(undone) - 1; i >= 0; i-- {
		n := undone[i]
		hash := btc.NewUint256(n.Hash[:])
		node := ch.BlockIndex[hash.BIdx()]
		if node == nil {
			run.Violation("operator/redo/unknown-block", "the block that was undone is no longer in the block index", map[string]interface{}{"block": n.Hash.String()})
			return false
		}
		crec, _, er := ch.Blocks.BlockGetInternal(hash, true)
		if er != nil {
			run.Violation("operator/redo/block-not-readable", "the block that was undone cannot be read from the block store: "+er.Error(), map[string]interface{}{"block": n.Hash.String()})
			return false
		}
		bl, er := btc.NewBlock(crec.Data)
		if er != nil {
			run.Violation("operator/redo/block-undecodable", "the block that was undone cannot be decoded: "+er.Error(), map[string]interface{}{"block": n.Hash.String()})
			return false
		}
		bl.Height = node.Height
		ch.ApplyBlockFlags(bl)
		if er = bl.BuildTxList(); er != nil {
			run.Violation("operator/redo/block-undecodable", "BuildTxList of the block that was undone fails: "+er.Error(), map[string]interface{}{"block": n.Hash.String()})
			return false
		}
		bl.Trusted.Clr()
		bl.LastKnownHeight = s.Ref.Tip.Height
		if er = ch.CommitBlock(bl, node); er != nil {
			run.Violation("operator/redo/refused", "committing the undone block again fails: "+er.Error(), map[string]interface{}{"block": n.Hash.String(), "journal_tail": lastN(s.Log, 20)})
			return false
		}
		s.Log = append(s.Log, "operator: redo -> "+n.Hash.String())
		run.Inc("operator_redo_commands")
		if !cmp("redo", n) {
			return false
		}
	}
	return true
}

func lastN(l []string, n int) []string {
	if len(l) > n {
		return l[len(l)-n:]
	}
	return l
}

// oneTree plans a random tree on top of the current tip (or a few blocks below it) and delivers it.
func OneTree(s *chainsim.Sim, run *vlib.Run, r *vlib.Rand, tno int) bool {
	if WorkMode && r.Intn(2) == 0 {
		return workDuel(s, run, r)
	}
	if Focus == "C04" && tno == 1 {
		return bip68Duel(s, run, r)
	}
	if r.Intn(4) == 0 {
		return tiePrefixPattern(s, run, r)
	}
	g := s.G
	root := s.Ref.Tip
	// sometimes fork from below the tip (reorganisation of already connected blocks)
	for k := r.Intn(4); k > 0 && root.Height > 105; k-- {
		root = root.Parent
	}
	var plan []*planned
	nblocks := 3 + r.Intn(14)
	shape := ""
	for i := 0; i < nblocks; i++ {
		var par *planned
		parNode := root
		if len(plan) > 0 && r.Intn(6) != 0 {
			// bias towards recent blocks => long branches, but sometimes fork anywhere
			if r.Intn(3) == 0 {
				par = plan[r.Intn(len(plan))]
			} else {
				par = plan[len(plan)-1-r.Intn(min(3, len(plan)))]
			}
			parNode = par.node
		}
		kind := "valid"
		if Focus == "C05" {
			switch x := r.Intn(100); {
			case x < 12:
				kind = "check-invalid/merkle"
			case x < 20:
				kind = "check-invalid/pow"
			case x < 26:
				kind = "check-invalid/time-too-old"
			case x < 32:
				kind = "check-invalid/bad-cb-height"
			case x < 36:
				kind = "connect-invalid/overclaim"
			}
		}
		if Focus == "C04" {
			switch x := r.Intn(100); {
			case x < 12:
				kind = "connect-invalid/script"
			case x < 22:
				kind = "connect-invalid/overclaim"
			case x < 34:
				kind = "connect-invalid/double-spend"
			case x < 46:
				kind = "connect-invalid/bip68-time" // a time-based relative lock one unit short, measured on this branch
			case x < 58:
				kind = "valid/bip68-time" // ... and exactly satisfied
			}
		}
		switch x := r.Intn(100); {
		case Focus == "C05" || Focus == "C04":
		case x < 8:
			kind = "connect-invalid/script"
		case x < 12:
			kind = "connect-invalid/overclaim"
		case x < 16:
			kind = "connect-invalid/double-spend"
		case x < 19:
			kind = "check-invalid/merkle"
		case x < 21:
			kind = "check-invalid/pow"
		}
		if Focus == "C04" {
			g.NextGap = 30 + uint32(r.Intn(4000)) // branches with clocks of their own: the same height has another median time on each
		}
		if WorkMode {
			if r.Bool() {
				g.NextGap = 1201 + uint32(r.Intn(600))
			} else {
				g.NextGap = 300 + uint32(r.Intn(600))
			}
		}
		b := buildKind(g, r, parNode, kind)
		g.NextGap = 0
		if b == nil {
			kind = "valid"
			b = g.RandomBlock(parNode, 4)
		}
		pl := &planned{b: b, node: g.PlanNode(b, parNode), parent: par, kind: kind}
		if kind == "valid" && (r.Intn(5) == 0 || (Focus == "C05" && r.Intn(2) == 0)) {
			if m, tw := mutatedTwin(g, r, parNode); m != nil {
				pl = &planned{b: m, twin: tw, node: g.PlanNode(m, parNode), parent: par, kind: "valid-after-mutated-twin"}
				b = m
			}
		}
		plan = append(plan, pl)
		if par == nil {
			shape += "R"
		} else {
			shape += fmt.Sprint(indexOf(plan, par))
		}
		shape += kind[:2] + ","
	}
	run.Distinct("tree_shapes", shape)
	// delivery: random linear extension; now and then a child is tried before its parent
	remaining := len(plan)
	for remaining > 0 {
		var ready, early []*planned
		for _, pl := range plan {
			if pl.done {
				continue
			}
			if pl.parent == nil || pl.parent.done {
				ready = append(ready, pl)
			} else {
				early = append(early, pl)
			}
		}
		if len(early) > 0 && r.Intn(12) == 0 {
			pl := early[r.Intn(len(early))]
			if _, _, ok := s.Offer(pl.b, "tree/child-before-parent"); !ok {
				return false
			}
			continue
		}
		pl := ready[r.Intn(len(ready))]
		pl.done = true
		remaining--
		if pl.twin != nil {
			// same header hash as pl.b, body with a repeated trailing subtree: must be refused and must not
			// prevent the honest block from being accepted afterwards
			if _, _, ok := s.Offer(pl.twin, "tree/mutated-twin(dup-subtree)"); !ok {
				return false
			}
		}
		rr, _, ok := s.Offer(pl.b, "tree/"+pl.kind)
		if !ok {
			return false
		}
		run.Distinct("delivery_outcomes", pl.kind, rr.Stage, rr.Reason, rr.TipChanged)
		switch r.Intn(10) {
		case 0:
			s.N.Ch.Idle()
			run.Inc("idle_calls")
		case 1:
			s.N.Ch.Unspent.HurryUp()
		}
		if r.Intn(15) == 0 {
			// redelivery of a known block must change nothing
			if _, _, ok := s.Offer(pl.b, "tree/redelivery"); !ok {
				return false
			}
		}
	}
	run.Inc("trees")
	return true
}

// bip68Duel (C04 trees): two branches, each long enough to have a median time of its own (the median of eleven
// time stamps follows a branch only after six blocks), run on different clocks. Each creates a coin at the same height
// and spends it two blocks later under a time-based relative lock: exactly satisfied on the first branch (which is
// connected), one unit short - measured on its own clock - on the second, longer one. The lock counts from the median
// time of the block before the coin's block on the branch the spend is in; whatever was worked out for that height on
// the other branch must not decide. The reference refuses the last block of the second branch; the node has to come
// back to the first.
func bip68Duel(s *chainsim.Sim, run *vlib.Run, r *vlib.Rand) bool {
	g := s.G
	fork := s.Ref.Tip
	if g.P.CSV == 0 || fork.Height+1 < g.P.CSV {
		return true
	}
	build := func(gapLo, gapHi int, extra int, short bool) []*refchain.Block {
		var l []*refchain.Block
		par := fork
		add := func(b *refchain.Block) {
			l = append(l, b)
			par = g.PlanNode(b, par)
		}
		gap := func() { g.NextGap = uint32(gapLo + r.Intn(gapHi-gapLo)) }
		for i := 0; i < 7; i++ {
			gap()
			add(g.Build(chainsim.BlockSpec{Parent: par}))
		}
		// the coin: an anyone-can-spend output created on this branch
		view := g.View(par)
		if view == nil {
			return nil
		}
		var src refchain.OutPoint
		found := false
		for _, op := range g.Spendable(view, par.Height+1, true) {
			if view[op].Value > 1000000 {
				src, found = op, true
				break
			}
		}
		if !found {
			return nil
		}
		c := view[src]
		mk := g.Spend([]refchain.OutPoint{src}, []refchain.Coin{c}, []refchain.TxOut{g.OutTrue(c.Value - 10)}, 2, 0, nil, -1)
		gap()
		add(g.Build(chainsim.BlockSpec{Parent: par, Txs: []*refchain.Tx{mk}, Fees: 10}))
		coinH := par.Height
		for i := 0; i < 1+extra; i++ {
			gap()
			add(g.Build(chainsim.BlockSpec{Parent: par}))
		}
		base := int64(par.Ancestor(coinH - 1).MTP())
		n := (int64(par.MTP()) - base) / 512
		if n < 0 || n > 0xfffd {
			return nil
		}
		if short {
			n++
		}
		sp := &refchain.Tx{Version: 2, In: []refchain.TxIn{{Prev: refchain.OutPoint{Hash: mk.TxID(), Idx: 0}, Sequence: uint32(n) | 1<<22}}, Out: []refchain.TxOut{g.OutTrue(c.Value - 20)}}
		gap()
		add(g.Build(chainsim.BlockSpec{Parent: par, Txs: []*refchain.Tx{sp}, Fees: 10}))
		return l
	}
	fastFirst := r.Bool()
	lo1, hi1, lo2, hi2 := 60, 200, 3000, 3600
	if !fastFirst {
		lo1, hi1, lo2, hi2 = lo2, hi2, lo1, hi1
	}
	a := build(lo1, hi1, 0, false)
	b := build(lo2, hi2, 1, true)
	g.NextGap = 0
	if a == nil || b == nil {
		run.Inc("bip68_duels_not_built")
		return true
	}
	for _, x := range a {
		if rr, _, ok := s.Offer(x, "duel68/first-branch"); !ok {
			return false
		} else if rr.Stage != "connected" {
			run.Inconclusive("bip68 duel: the first branch is not connected by the reference (%s %s)", rr.Stage, rr.Reason)
			return false
		}
	}
	for i, x := range b {
		rr, _, ok := s.Offer(x, "duel68/second-branch")
		if !ok {
			return false
		}
		if i == len(b)-1 && rr.Reason != "bad-txns-nonfinal(BIP68)" {
			run.Inconclusive("bip68 duel: the reference refuses the last block of the second branch for %q", rr.Reason)
			return false
		}
	}
	run.Inc("pattern_trees/bip68-duel")
	run.Inc("trees")
	return true
}

// tiePrefixPattern: two branches from one fork point; the branch that was seen first gets
// overtaken, later ties the tip again and then continues with a block that is invalid only at
// connect time. After the failed reorganisation the node must be back on the tip it came from
// (first seen wins the tie), not on the equal-work valid prefix of the failed branch.
func tiePrefixPattern(s *chainsim.Sim, run *vlib.Run, r *vlib.Rand) bool {
	g := s.G
	fork := s.Ref.Tip
	k := 1 + r.Intn(3)
	build := func(par *refchain.Node, n int, kind string) ([]*refchain.Block, *refchain.Node) {
		var l []*refchain.Block
		for i := 0; i < n; i++ {
			var b *refchain.Block
			if kind != "valid" && i == n-1 {
				b = buildKind(g, r, par, kind)
			}
			if b == nil {
				b = g.RandomBlock(par, 3)
			}
			l = append(l, b)
			par = g.PlanNode(b, par)
		}
		return l, par
	}
	kinds := []string{"connect-invalid/overclaim", "connect-invalid/double-spend", "connect-invalid/script"}
	bBlocks, _ := build(fork, k+1, kinds[r.Intn(len(kinds))]) // B1..Bk valid, B(k+1) invalid
	aBlocks, _ := build(fork, k, "valid")                     // A1..Ak
	seq := []struct {
		b   *refchain.Block
		fam string
	}{}
	bFirst := r.Intn(4) != 0
	if bFirst {
		seq = append(seq, struct {
			b   *refchain.Block
			fam string
		}{bBlocks[0], "pattern/B1-first"})
	}
	for _, b := range aBlocks {
		seq = append(seq, struct {
			b   *refchain.Block
			fam string
		}{b, "pattern/A-branch"})
	}
	start := 1
	if !bFirst {
		start = 0
	}
	for i := start; i < k; i++ {
		seq = append(seq, struct {
			b   *refchain.Block
			fam string
		}{bBlocks[i], "pattern/B-ties"})
	}
	seq = append(seq, struct {
		b   *refchain.Block
		fam string
	}{bBlocks[k], "pattern/B-invalid-after-tie"})
	for _, e := range seq {
		if _, _, ok := s.Offer(e.b, e.fam); !ok {
			return false
		}
	}
	run.Inc("pattern_trees/failed-reorg-with-tied-prefix")
	run.Distinct("tree_shapes", "pattern-tie-prefix", k, bFirst)
	run.Inc("trees")
	return true
}

// workDuel (work mode only): two branches from one fork point whose blocks carry different work - one made mostly of
// minimum-difficulty blocks (more than 20 minutes after the parent), one mostly of real-difficulty blocks (4x the work
// each). The first is delivered completely, then the second block by block, so the node has to weigh a candidate tip
// that is lower / equal / higher than its own tip against blocks of other difficulty: the shorter-but-heavier branch
// must win, the longer-but-lighter one must not. The reference decides by cumulative work after every delivery.
func workDuel(s *chainsim.Sim, run *vlib.Run, r *vlib.Rand) bool {
	g := s.G
	fork := s.Ref.Tip
	build := func(n int, minDiffOdds int) ([]*refchain.Block, *refchain.Node) { // minDiffOdds of 8
		var l []*refchain.Block
		par := fork
		for i := 0; i < n; i++ {
			if r.Intn(8) < minDiffOdds {
				g.NextGap = 1201 + uint32(r.Intn(600))
			} else {
				g.NextGap = 300 + uint32(r.Intn(600))
			}
			b := g.RandomBlock(par, 2)
			g.NextGap = 0
			l = append(l, b)
			par = g.PlanNode(b, par)
		}
		return l, par
	}
	light, lt := build(2+r.Intn(7), 7)
	heavy, ht := build(1+r.Intn(4), 1)
	first, second, fam1, fam2 := light, heavy, "duel/light-branch-first", "duel/heavy-branch-second"
	if r.Intn(3) == 0 {
		first, second, fam1, fam2 = heavy, light, "duel/heavy-branch-first", "duel/light-branch-second"
	}
	for _, b := range first {
		if _, _, ok := s.Offer(b, fam1); !ok {
			return false
		}
	}
	for _, b := range second {
		if _, _, ok := s.Offer(b, fam2); !ok {
			return false
		}
	}
	w, l := ht, lt // w: the branch with more work
	if ht.Work.Cmp(lt.Work) < 0 {
		w, l = lt, ht
	}
	switch {
	case w.Work.Cmp(l.Work) == 0:
		run.Inc("duels_equal_work")
	case w.Height < l.Height:
		run.Inc("duels_shorter_branch_is_heavier")
	case w.Height == l.Height:
		run.Inc("duels_equal_height_different_work")
	default:
		run.Inc("duels_longer_branch_is_heavier")
	}
	run.Inc("pattern_trees/work-duel")
	run.Distinct("tree_shapes", "work-duel", len(light), len(heavy), fam1)
	run.Inc("trees")
	return true
}

func indexOf(l []*planned, p *planned) int {
	for i := range l {
		if l[i] == p {
			return i
		}
	}
	return -1
}

func min(a, b int) int {
	if a < b {
		return a
	}
	return b
}

// mutatedTwin builds a valid block with 6 or 12 transactions and its CVE-2012-2459 mutation: the
// last 2 (4) transactions repeated, which yields the same Merkle root (and block hash) while no two
// sibling *leaves* are equal - the duplication is only visible one (two) levels above the leaves.
func mutatedTwin(g *chainsim.Gen, r *vlib.Rand, par *refchain.Node) (*refchain.Block, *refchain.Block) {
	height := par.Height + 1
	segwit := g.P.Segwit != 0 && height >= g.P.Segwit
	view := g.View(par)
	if view == nil {
		return nil, nil
	}
	var rich []refchain.OutPoint
	for _, op := range g.Spendable(view, height, segwit) {
		if k, _ := g.KindOf(view[op].Script); view[op].Value > 100000 && k != chainsim.KP2WPKH && k != chainsim.KP2WSHTrue {
			rich = append(rich, op)
		}
	}
	n, d := 5, 2
	if len(rich) >= 11 && r.Bool() {
		n, d = 11, 4
	}
	if len(rich) < n {
		return nil, nil
	}
	var txs []*refchain.Tx
	for i := 0; i < n; i++ {
		c := view[rich[i]]
		txs = append(txs, g.Spend([]refchain.OutPoint{rich[i]}, []refchain.Coin{c}, []refchain.TxOut{g.OutTrue(c.Value - 10)}, 1, 0, nil, -1))
	}
	m := g.Build(chainsim.BlockSpec{Parent: par, Txs: txs, Fees: uint64(10 * n), NoCommitment: true})
	tw := *m
	tw.DupTail = d
	if root, mut := tw.ComputeMerkle(); root != m.Merkle || !mut || tw.Hash() != m.Hash() {
		return nil, nil // construction did not align (should not happen)
	}
	return m, &tw
}

func buildKind(g *chainsim.Gen, r *vlib.Rand, par *refchain.Node, kind string) *refchain.Block {
	height := par.Height + 1
	segwit := g.P.Segwit != 0 && height >= g.P.Segwit
	switch kind {
	case "valid":
		return g.RandomBlock(par, 5)
	case "check-invalid/merkle":
		return g.Build(chainsim.BlockSpec{Parent: par, BadMerkle: true})
	case "check-invalid/pow":
		return g.Build(chainsim.BlockSpec{Parent: par, FailPoW: true})
	case "connect-invalid/overclaim":
		return g.Build(chainsim.BlockSpec{Parent: par, CoinbaseDelta: 1})
	case "check-invalid/time-too-old":
		return g.Build(chainsim.BlockSpec{Parent: par, Time: par.MTP()})
	case "check-invalid/bad-cb-height":
		if height < g.P.BIP34 {
			return nil
		}
		return g.Build(chainsim.BlockSpec{Parent: par, CoinbaseScript: append(refchain.BIP34Prefix(height+1), 1, 2, 3, 4)})
	}
	view := g.View(par)
	if view == nil {
		return nil
	}
	avail := g.Spendable(view, height, segwit)
	var rich []refchain.OutPoint
	for _, op := range avail {
		if view[op].Value > 100000 {
			rich = append(rich, op)
		}
	}
	if len(rich) < 2 {
		return nil
	}
	a, b := rich[r.Intn(len(rich))], rich[r.Intn(len(rich))]
	ca, cb := view[a], view[b]
	switch kind {
	case "connect-invalid/bip68-time", "valid/bip68-time":
		// BIP68, time-based: the lock counts from the median time of the block before the coin's block - on the branch this
		// block is built on, whatever another branch had at that height
		if g.P.CSV == 0 || height < g.P.CSV {
			return nil
		}
		var op refchain.OutPoint
		var co refchain.Coin
		found := false
		for _, x := range rich { // the youngest one: most likely created on this very branch
			if cx := view[x]; !cx.Coinbase && cx.Height > 0 && height-cx.Height <= 40 && (!found || cx.Height > co.Height) {
				op, co, found = x, cx, true
			}
		}
		if !found {
			return nil
		}
		base := int64(par.Ancestor(co.Height - 1).MTP())
		n := (int64(par.MTP()) - base) / 512 // satisfied iff base + n*512 - 1 < MTP(parent)
		if n < 0 || n > 0xfffd {
			return nil
		}
		if kind == "connect-invalid/bip68-time" {
			n++
		}
		t := g.Spend([]refchain.OutPoint{op}, []refchain.Coin{co}, []refchain.TxOut{g.OutTrue(co.Value - 10)}, 2, 0, []uint32{uint32(n) | 1<<22}, -1)
		return g.Build(chainsim.BlockSpec{Parent: par, Txs: []*refchain.Tx{t}, Fees: 10})
	case "connect-invalid/script":
		t1 := g.Spend([]refchain.OutPoint{a}, []refchain.Coin{ca}, []refchain.TxOut{g.OutTrue(ca.Value - 10)}, 1, 0, nil, 0)
		if a != b && r.Bool() {
			// in front of it a valid transaction that chain.TrustedTxChecker vouches for (the client's pool has verified it):
			// no verifier for that one - the failing one behind it still has to be found
			t0 := g.Spend([]refchain.OutPoint{b}, []refchain.Coin{cb}, []refchain.TxOut{g.OutTrue(cb.Value - 10)}, 1, 0, nil, -1)
			vouch(t0.WTxID())
			return g.Build(chainsim.BlockSpec{Parent: par, Txs: []*refchain.Tx{t0, t1}, Fees: 20})
		}
		return g.Build(chainsim.BlockSpec{Parent: par, Txs: []*refchain.Tx{t1}, Fees: 10})
	case "connect-invalid/double-spend":
		t1 := g.Spend([]refchain.OutPoint{a}, []refchain.Coin{ca}, []refchain.TxOut{g.OutTrue(ca.Value - 10)}, 1, 0, nil, -1)
		t2 := g.Spend([]refchain.OutPoint{a}, []refchain.Coin{ca}, []refchain.TxOut{g.OutTrue(ca.Value - 11)}, 1, 0, nil, -1)
		_ = cb
		return g.Build(chainsim.BlockSpec{Parent: par, Txs: []*refchain.Tx{t1, t2}, Fees: 21})
	}
	return nil
}

func Main() {
	if len(os.Args) > 1 && os.Args[1] == "child" {
		var seed int64
		var trees int
		fmt.Sscan(os.Args[2], &seed)
		fmt.Sscan(os.Args[6], &trees)
		Child(seed, os.Args[3], os.Args[4], os.Args[5], trees)
		return
	}
	run := vlib.Start("C06", "exploration")
	tmp, _ := os.MkdirTemp("", "forksmon")
	defer os.RemoveAll(tmp)
	type job struct {
		cfg  Config
		seed int64
	}
	var jobs []job
	reps := run.N(4, 100)
	trees := run.N(6, 20)
	for i := 0; i < reps; i++ {
		for _, c := range Configs() {
			jobs = append(jobs, job{c, run.Seed*1000 + int64(i)})
		}
	}
	for i := 0; i < run.N(2, 20); i++ {
		jobs = append(jobs, job{WorkConfig, run.Seed*1000 + 300 + int64(i)})
	}
	vlib.Parallel(len(jobs), 8, func(i int) {
		j := jobs[i]
		sf := fmt.Sprintf("%s/state%d.json", tmp, i)
		res := vlib.RunChild("", []string{"child", fmt.Sprint(j.seed), run.Tier, j.cfg.Name, sf, fmt.Sprint(trees)}, nil, nil, 30*time.Minute)
		desc := map[string]interface{}{"config": j.cfg.Name, "child_seed": j.seed}
		if res.TimedOut {
			run.Inconclusive("child watchdog fired: %v", desc)
			return
		}
		okState := run.ImportState(sf)
		if res.ExitCode != 0 || !okState {
			desc["output_tail"] = vlib.Tail(res.Out, 4000)
			cls := "child-died"
			if strings.Contains(string(res.Out), "panic") {
				cls = "child-panic"
			}
			run.Violation(cls+"/"+j.cfg.Name, fmt.Sprintf("worker process died (exit %d %s) while processing blocks", res.ExitCode, res.Signal), desc)
			return
		}
		run.Inc("histories")
		run.Distinct("configs", j.cfg.Name)
	})
	if run.Get("reorgs_observed") == 0 && run.Violations() == 0 {
		run.Inconclusive("no reorganisation was observed")
	}
	run.Assume("script validity of generated inputs is ground truth by construction; every other rule and the fork choice come from /verif/ref/refchain")
	run.Assume("per-block work differs only in the testnet-work histories (minimum-difficulty blocks = 1/4 of a real block after one retarget); elsewhere all blocks carry the same difficulty")
	os.RemoveAll(tmp) // Finish exits the process: deferred clean-up would not run
	run.Finish("each delivery = one block of a random block tree (valid / invalid at connect time / invalid at check time; forks from the tip and from below it; children withheld until parents are delivered, sometimes offered early; redeliveries; Idle/HurryUp in between); after each: tip + full UTXO dump vs reference; distinct_nontrivial = distinct (tip, UTXO size) states that were compared (distinct tree shapes are listed under distinct_sets)",
		"deliveries", "chain_states_compared", 10)
}
