// Package balmon implements the C17 monitor: the client's balance index (client/wallet) is wired to
// the chain exactly as client/wallet/onoff.go does and driven by block histories with connects,
// disconnects and reorganisations; after every delivery, for every address script ever seen,
// GetAllUnspent (set and sum) and the Browse totals are compared with the projection of the
// reference UTXO set (outputs >= MinValue paying to that script).
package balmon

import (
	"crypto/sha256"
	"fmt"
	"os"
	"path/filepath"
	"sort"
	"strings"
	"time"

	"github.com/piotrnar/gocoin/client/common"
	"github.com/piotrnar/gocoin/client/wallet"
	"github.com/piotrnar/gocoin/lib/btc"
	"verif/lib/vlib"
	"verif/mon/chainsim"
	"verif/mon/forksmon"
	"verif/ref/refchain"
)

// minValue: AllBalances.MinValue currently in force (changed like a config reload while the index is off)
var minValue uint64 = 1000

type projEntry struct {
	op refchain.OutPoint
	c  refchain.Coin
}

// indexable: the five script forms the balance index tracks
func indexable(s []byte) bool {
	switch {
	case len(s) == 25 && s[0] == 0x76 && s[1] == 0xa9 && s[2] == 0x14 && s[23] == 0x88 && s[24] == 0xac:
		return true
	case len(s) == 23 && s[0] == 0xa9 && s[1] == 0x14 && s[22] == 0x87:
		return true
	case len(s) == 22 && s[0] == 0 && s[1] == 0x14:
		return true
	case len(s) == 34 && s[0] == 0 && s[1] == 0x20:
		return true
	case len(s) == 34 && s[0] == 0x51 && s[1] == 0x20:
		return true
	}
	return false
}

func project(u refchain.UTXO) map[string][]projEntry {
	m := map[string][]projEntry{}
	for op, c := range u {
		if c.Value >= minValue && indexable(c.Script) {
			m[string(c.Script)] = append(m[string(c.Script)], projEntry{op, c})
		}
	}
	return m
}

type checker struct {
	run  *vlib.Run
	s    *chainsim.Sim
	seen map[string]bool // every indexable script ever seen in an output
	on   bool
}

func (c *checker) note(b *refchain.Block) {
	for _, t := range b.Txs {
		for _, o := range t.Out {
			if indexable(o.Script) {
				c.seen[string(o.Script)] = true
			}
		}
	}
}

func entryStr(op refchain.OutPoint, value uint64, height uint32, cb bool) string {
	return fmt.Sprintf("%s:%d v=%d h=%d cb=%v", op.Hash, op.Idx, value, height, cb)
}

// check compares the index with the projection; returns false on the first violation.
func (c *checker) check(where string) bool {
	if !c.on {
		return true
	}
	proj := project(c.s.Ref.Utxo)
	scripts := make([]string, 0, len(c.seen))
	for k := range c.seen {
		scripts = append(scripts, k)
	}
	sort.Strings(scripts)
	for _, sc := range scripts {
		addr := btc.NewAddrFromPkScript([]byte(sc), common.Testnet)
		if addr == nil {
			continue
		}
		got := wallet.GetAllUnspent(addr)
		var gl, wl []string
		var gsum, wsum uint64
		for _, u := range got {
			var op refchain.OutPoint
			copy(op.Hash[:], u.TxPrevOut.Hash[:])
			op.Idx = u.TxPrevOut.Vout
			gl = append(gl, entryStr(op, u.Value, u.MinedAt, u.Coinbase))
			gsum += u.Value
		}
		for _, e := range proj[sc] {
			wl = append(wl, entryStr(e.op, e.c.Value, e.c.Height, e.c.Coinbase))
			wsum += e.c.Value
		}
		sort.Strings(gl)
		sort.Strings(wl)
		if strings.Join(gl, "|") != strings.Join(wl, "|") || gsum != wsum {
			c.run.Violation("balance-mismatch/"+where+"/"+scriptKind([]byte(sc)),
				fmt.Sprintf("GetAllUnspent(%s) differs from the UTXO projection after %s: index has %d outputs sum %d, UTXO set has %d outputs sum %d", addr.String(), where, len(gl), gsum, len(wl), wsum),
				map[string]interface{}{"address": addr.String(), "script": vlib.Hex([]byte(sc)), "index": gl, "utxo_projection": wl, "journal_tail": tailN(c.s.Log, 25)})
			return false
		}
		c.run.Inc("address_checks")
		c.run.Distinct("address_states_compared", sc, strings.Join(wl, "|"))
		if len(wl) > 0 {
			c.run.Inc("address_checks_nonempty")
		}
		if len(wl) >= 4 {
			c.run.Inc("address_checks_map_mode(>=UseMapCnt)")
		}
	}
	// Browse totals: every record of the index corresponds to a script of the projection with the same count and value
	type tot struct {
		n int
		v uint64
	}
	want := map[tot]int{}
	for _, l := range proj {
		var t tot
		for _, e := range l {
			t.n++
			t.v += e.c.Value
		}
		want[t]++
	}
	gotT := map[tot]int{}
	nrec := 0
	wallet.Browse(func(idx int, h wallet.OneAddrIndex, coins *wallet.OneAllAddrBal) {
		gotT[tot{coins.Count(), coins.Value}]++
		nrec++
	})
	if nrec != len(proj) || fmt.Sprint(gotT) != fmt.Sprint(want) {
		c.run.Violation("browse-totals-mismatch/"+where, fmt.Sprintf("Browse lists %d address records, the UTXO projection has %d addresses; (count,value) multisets differ: index %v projection %v", nrec, len(proj), gotT, want),
			map[string]interface{}{"journal_tail": tailN(c.s.Log, 25)})
		return false
	}
	c.run.Inc("full_index_comparisons")
	return true
}

func scriptKind(s []byte) string {
	switch {
	case len(s) == 25:
		return "p2pkh"
	case len(s) == 23:
		return "p2sh"
	case len(s) == 22:
		return "p2wpkh"
	case len(s) == 34 && s[0] == 0:
		return "p2wsh"
	}
	return "p2tr"
}

func tailN(l []string, n int) []string {
	if len(l) > n {
		return l[len(l)-n:]
	}
	return l
}

func Child(seed int64, tier, stateFile string, rounds int, testnet bool) {
	run := vlib.StartChild("C17", seed, tier)
	defer run.ExportState(stateFile)
	r := vlib.NewRand(uint64(seed)).Fork("C17")
	dir, _ := os.MkdirTemp("", "bal")
	defer os.RemoveAll(dir)
	p := chainsim.DefaultParams(uint64(seed), false)
	p.BIP34, p.BIP66, p.BIP65, p.CSV, p.Segwit, p.Taproot = 104, 105, 106, 107, 108, 109
	s := chainsim.NewSim(run, r, p, dir, chainsim.NodeOpts{})
	defer s.Close()
	g := s.G
	// wiring as the client does it
	common.BlockChain = s.N.Ch
	common.GocoinHomeDir = dir + "/"
	common.Testnet = testnet
	common.CFG.Testnet = testnet
	common.CFG.AllBalances.MinValue = minValue
	common.CFG.AllBalances.UseMapCnt = 4
	ck := &checker{run: run, s: s, seen: map[string]bool{}}
	enable := func(where string) bool {
		wallet.LoadBalancesFromUtxo()
		ck.on = true
		run.Inc("index_built_from_populated_set")
		return ck.check(where)
	}
	offer := func(b *refchain.Block, fam string) bool {
		ck.note(b)
		_, _, ok := s.Offer(b, fam)
		if !ok {
			return false
		}
		return ck.check("delivery:" + fam)
	}
	if r.Bool() { // index on from the very beginning (empty set) or built later from a populated set
		if !enable("initial-load-empty") {
			return
		}
	}
	for s.Ref.Tip.Height < 110 {
		mx := 0
		if s.Ref.Tip.Height >= 101 {
			mx = 6
		}
		if !offer(g.RandomBlock(s.Ref.Tip, mx), "base") {
			return
		}
	}
	if !ck.on && !enable("initial-load-populated") {
		return
	}
	p2tr := func() []byte { // receive-only taproot addresses (two of them)
		k := byte(1 + r.Intn(2))
		sc := make([]byte, 34)
		sc[0], sc[1] = 0x51, 0x20
		for i := 2; i < 34; i++ {
			sc[i] = k
		}
		return sc
	}
	// two pairs of receive-only P2PKH addresses whose index keys (SipHash-2-4 with a zero key over the 20-byte program)
	// agree in their low resp. high 32 bits: an index keyed by fewer than 64 bits of it would merge them
	collide := collidingPrograms(r)
	for round := 0; round < rounds; round++ {
		if round == 0 && len(collide) > 0 {
			view := g.View(s.Ref.Tip)
			for _, op := range g.Spendable(view, s.Ref.Tip.Height+1, true) {
				if c := view[op]; c.Value > 10000000 {
					var outs []refchain.TxOut
					var total uint64
					for i, prog := range collide {
						v := 20000 + uint64(i)*1000
						outs = append(outs, refchain.TxOut{Value: v, Script: append(append([]byte{0x76, 0xa9, 0x14}, prog...), 0x88, 0xac)})
						total += v
					}
					outs = append(outs, g.OutTrue(c.Value-total-500))
					t := g.Spend([]refchain.OutPoint{op}, []refchain.Coin{c}, outs, 2, 0, nil, -1)
					if !offer(g.Build(chainsim.BlockSpec{Parent: s.Ref.Tip, Txs: []*refchain.Tx{t}, Fees: 500}), "colliding-index-keys") {
						return
					}
					run.Inc("histories_with_addresses_colliding_in_32_bits_of_the_index_key")
					break
				}
			}
		}
		// a transaction paying many outputs to few addresses: list->map switch-over (UseMapCnt=4),
		// several outputs of one tx to one address, values at MinValue-1 / MinValue
		view := g.View(s.Ref.Tip)
		height := s.Ref.Tip.Height + 1
		av := g.Spendable(view, height, true)
		var src refchain.OutPoint
		found := false
		for _, op := range av {
			if view[op].Value > 10000000 {
				src, found = op, true
				break
			}
		}
		if found {
			c := view[src]
			n := 6 + r.Intn(12)
			var outs []refchain.TxOut
			var total uint64
			tgt := g.ScriptOf(chainsim.KP2PKH, r)
			tgt2 := g.ScriptOf(chainsim.KP2WPKH, r)
			for i := 0; i < n; i++ {
				v := uint64(minValue) + uint64(r.Intn(3)) - 1 // 999, 1000, 1001
				if r.Intn(3) == 0 {
					v = 50000 + uint64(r.Intn(1000))
				}
				var sc []byte
				switch r.Intn(6) {
				case 0, 1:
					sc = tgt
				case 2:
					sc = tgt2
				case 3:
					sc = p2tr()
				case 4:
					sc = g.ScriptOf(chainsim.KP2WSHTrue, r)
				default:
					sc = g.ScriptOf(chainsim.KP2SHTrue, r)
				}
				outs = append(outs, refchain.TxOut{Value: v, Script: sc})
				total += v
			}
			outs = append(outs, g.OutTrue(c.Value-total-500))
			t := g.Spend([]refchain.OutPoint{src}, []refchain.Coin{c}, outs, 2, 0, nil, -1)
			if !offer(g.Build(chainsim.BlockSpec{Parent: s.Ref.Tip, Txs: []*refchain.Tx{t}, Fees: 500}), "many-to-few") {
				return
			}
		}
		// the second life of an address: X is paid, all it holds is spent again (its index entry disappears), and the very
		// next indexed output pays X again - no other address is touched in between (coinbases and change go to the plain
		// OP_TRUE script, which is not indexed). X is a P2WSH address of its own, spent by showing its witness script.
		if ck.on {
			view := g.View(s.Ref.Tip)
			var src refchain.OutPoint
			found := false
			for _, op := range g.Spendable(view, s.Ref.Tip.Height+1, true) {
				if view[op].Value > 1000000 {
					src, found = op, true
					break
				}
			}
			if found {
				ws := append(append([]byte{20}, r.Bytes(20)...), 0x75, 0x51) // <20 random bytes> OP_DROP OP_TRUE
				wh := sha256.Sum256(ws)
				x := append([]byte{0x00, 0x20}, wh[:]...)
				c := view[src]
				lives := 2 + r.Intn(2)
				t1 := g.Spend([]refchain.OutPoint{src}, []refchain.Coin{c}, []refchain.TxOut{g.OutTrue(c.Value - 40000 - 500), {Value: 40000, Script: x}}, 1, 0, nil, -1)
				if !offer(g.Build(chainsim.BlockSpec{Parent: s.Ref.Tip, Txs: []*refchain.Tx{t1}, Fees: 500, CoinbaseKind: chainsim.KTrue}), "address-first-life") {
					return
				}
				change := refchain.OutPoint{Hash: t1.TxID(), Idx: 0}
				changeV := c.Value - 40000 - 500
				held := refchain.OutPoint{Hash: t1.TxID(), Idx: 1}
				heldV := uint64(40000)
				for life := 1; life < lives; life++ {
					// everything X holds goes (to OP_TRUE)
					t2 := &refchain.Tx{Version: 1, In: []refchain.TxIn{{Prev: held, Sequence: 0xffffffff, Witness: [][]byte{ws}}}, Out: []refchain.TxOut{g.OutTrue(heldV - 300)}}
					if !offer(g.Build(chainsim.BlockSpec{Parent: s.Ref.Tip, Txs: []*refchain.Tx{t2}, Fees: 300, CoinbaseKind: chainsim.KTrue}), "address-emptied") {
						return
					}
					// ... and X is paid again by the next indexed output there is
					t3 := &refchain.Tx{Version: 1, In: []refchain.TxIn{{Prev: change, Sequence: 0xffffffff}}, Out: []refchain.TxOut{g.OutTrue(changeV - 30000 - 300), {Value: 30000, Script: x}}}
					if !offer(g.Build(chainsim.BlockSpec{Parent: s.Ref.Tip, Txs: []*refchain.Tx{t3}, Fees: 300, CoinbaseKind: chainsim.KTrue}), "address-next-life") {
						return
					}
					change, changeV = refchain.OutPoint{Hash: t3.TxID(), Idx: 0}, changeV-30000-300
					held, heldV = refchain.OutPoint{Hash: t3.TxID(), Idx: 1}, 30000
					run.Inc("addresses_emptied_and_paid_again_at_once")
				}
			}
		}
		// spend everything spendable of one address (index entry must disappear), block by block
		for k := 0; k < 2; k++ {
			if !offer(g.RandomBlock(s.Ref.Tip, 8), "random") {
				return
			}
		}
		// reorganisations (disconnects) via a block tree; checked after every delivery
		if !treeWithChecks(s, ck, run, r, round) {
			return
		}
		if r.Intn(3) == 0 {
			wallet.Disable()
			ck.on = false
			run.Inc("index_disabled")
			if !offer(g.RandomBlock(s.Ref.Tip, 5), "while-disabled") {
				return
			}
			if r.Bool() {
				// the configured minimum changes (config reload); switching the index off and on is how it gets applied
				minValue = []uint64{600, 1000, 1300, 999, 1001}[r.Intn(5)]
				common.LockCfg()
				common.CFG.AllBalances.MinValue = minValue
				common.UnlockCfg()
				run.Inc("min_value_changed_while_index_off")
				run.Distinct("min_values", minValue)
			}
			if !enable("re-enable") {
				return
			}
		}
		if r.Intn(2) == 0 {
			// node restart with the index kept on disk (client/main.go: SaveBalances at exit; at start the configuration is
			// applied, LoadBalances is tried and the index is built from the unspent set if no matching dump exists).
			// Before the exit the configured minimum may change (config reload at run time: not applied until the restart),
			// and blocks may arrive between the save and an unclean exit (the dump on disk is then for another tip).
			pending := minValue
			if r.Intn(2) == 0 {
				pending = []uint64{600, 1000, 1300, 999, 1001}[r.Intn(5)]
				common.LockCfg()
				common.CFG.AllBalances.MinValue = pending
				common.UnlockCfg()
				run.Inc("min_value_reloaded_while_index_on")
				if !offer(g.RandomBlock(s.Ref.Tip, 5), "after-config-reload") { // still the old minimum in force
					return
				}
			}
			common.CFG.AllBalances.SaveBalances = true
			common.Last.Mutex.Lock()
			common.Last.Block = s.N.Ch.LastBlock()
			common.Last.Mutex.Unlock()
			if er := wallet.SaveBalances(); er != nil {
				run.Inc("index_save_refused")
			} else {
				run.Inc("index_saved_to_disk")
			}
			unclean := r.Intn(3) == 0
			if unclean { // more blocks, then the process dies without saving again
				if !offer(g.RandomBlock(s.Ref.Tip, 5), "after-index-save") {
					return
				}
				run.Inc("restarts_with_stale_index_dump")
			}
			if !unclean && r.Intn(3) == 0 {
				// the process died while SaveBalances was writing (the folder already carries its final name), or a
				// file of the dump is short for another reason: one of the five files is cut at a random length
				dumps, _ := filepath.Glob(dir + "/bal/*/*")
				if len(dumps) > 0 {
					fn := dumps[r.Intn(len(dumps))]
					if st, er := os.Stat(fn); er == nil && st.Size() > 0 {
						os.Truncate(fn, int64(r.Intn(int(st.Size()))))
						run.Inc("restarts_with_a_cut_index_dump_file")
					}
				}
			}
			// the new process: no index, nothing remembered, configuration applied
			wallet.Disable()
			wallet.VerifFreshProcess()
			ck.on = false
			common.ApplyBalMinVal()
			minValue = pending
			run.Distinct("min_values", minValue)
			common.Last.Mutex.Lock()
			common.Last.Block = s.N.Ch.LastBlock()
			common.Last.Mutex.Unlock()
			if er := wallet.LoadBalances(); er == nil {
				run.Inc("index_loaded_from_disk")
				ck.on = true
				if !ck.check("restart-index-from-disk") {
					return
				}
			} else {
				run.Inc("index_dump_not_usable_after_restart")
				if !enable("restart-index-from-utxo") {
					return
				}
			}
			if !offer(g.RandomBlock(s.Ref.Tip, 6), "after-restart") {
				return
			}
		}
	}
	run.Count("reorgs_observed", int64(s.Ref.Reorgs))
	run.Distinct("addresses_seen", len(ck.seen), seed)
	if run.WantSample() {
		run.Sample(map[string]interface{}{"addresses": len(ck.seen), "final_height": s.Ref.Tip.Height, "reorgs": s.Ref.Reorgs})
	}
}

// treeWithChecks runs a forksmon tree but checks the index after every delivery by wrapping the
// Sim's journal length (the tree code calls s.Offer itself), so the check runs right after the tree
// and additionally at every reorganisation boundary through the periodic hook below.
func treeWithChecks(s *chainsim.Sim, ck *checker, run *vlib.Run, r *vlib.Rand, round int) bool {
	s.AfterOffer = func(b *refchain.Block) bool {
		ck.note(b)
		return ck.check("tree-delivery")
	}
	ok := forksmon.OneTree(s, run, r, round)
	s.AfterOffer = nil
	return ok
}

func Main() {
	if len(os.Args) > 1 && os.Args[1] == "child" {
		var seed int64
		var rounds int
		fmt.Sscan(os.Args[2], &seed)
		fmt.Sscan(os.Args[5], &rounds)
		Child(seed, os.Args[3], os.Args[4], rounds, os.Args[6] == "t")
		return
	}
	run := vlib.Start("C17", "exploration")
	tmp, _ := os.MkdirTemp("", "balmon")
	defer os.RemoveAll(tmp)
	n := run.N(16, 400)
	rounds := run.N(4, 8)
	vlib.Parallel(n, 8, func(i int) {
		sf := fmt.Sprintf("%s/state%d.json", tmp, i)
		tn := "m"
		if i%2 == 1 {
			tn = "t"
		}
		seed := run.Seed*1000 + int64(i)
		var env []string
		if i%4 == 1 {
			env = []string{"VERIF_POISON_FREE=1"} // record life times as on the client's custom heap
			run.Inc("histories_with_poison_on_free")
		}
		if i%4 >= 2 {
			env = []string{"VERIF_PURGE=1"} // utxo.UTXO_PURGE_UNSPENDABLE, as a freshly configured client runs
			run.Inc("histories_with_purge_unspendable")
		}
		res := vlib.RunChild("", []string{"child", fmt.Sprint(seed), run.Tier, sf, fmt.Sprint(rounds), tn}, env, nil, 30*time.Minute)
		desc := map[string]interface{}{"child_seed": seed, "testnet_addresses": tn == "t", "purge": i%4 >= 2}
		if res.TimedOut {
			run.Inconclusive("child watchdog fired: %v", desc)
			return
		}
		okState := run.ImportState(sf)
		if res.ExitCode != 0 || !okState {
			desc["output_tail"] = vlib.Tail(res.Out, 4000)
			run.Violation("child-died", fmt.Sprintf("worker process died (exit %d %s)", res.ExitCode, res.Signal), desc)
			return
		}
		if strings.Contains(string(res.Out), "ERROR: balance rec not found") || strings.Contains(string(res.Out), "ERROR: unspent rec not in") {
			run.Inc("index_self_reported_errors")
		}
		run.Inc("histories")
	})
	run.Assume("the UTXO projection is computed from the reference UTXO set, which the same run ties to the node's UTXO dump after every delivery")
	run.Assume("taproot addresses only receive (the generator has no taproot signer); P2PKH/P2SH/P2WPKH/P2WSH are received and spent")
	os.RemoveAll(tmp) // Finish exits the process: deferred clean-up would not run
	run.Finish("each evaluation = GetAllUnspent(addr) (set, sum) for one address compared with the UTXO projection after one delivery / reorganisation step / index (re)build; plus a full Browse comparison each time; distinct_nontrivial = distinct (address, set of unspent outputs) states that were compared",
		"address_checks", "address_states_compared", 4)
}

// siphash24 is SipHash-2-4 (Aumasson, Bernstein) - written from the paper, no gocoin code.
func siphash24(k0, k1 uint64, m []byte) uint64 {
	v0, v1, v2, v3 := k0^0x736f6d6570736575, k1^0x646f72616e646f6d, k0^0x6c7967656e657261, k1^0x7465646279746573
	rotl := func(x uint64, b uint) uint64 { return x<<b | x>>(64-b) }
	round := func() {
		v0 += v1
		v1 = rotl(v1, 13)
		v1 ^= v0
		v0 = rotl(v0, 32)
		v2 += v3
		v3 = rotl(v3, 16)
		v3 ^= v2
		v0 += v3
		v3 = rotl(v3, 21)
		v3 ^= v0
		v2 += v1
		v1 = rotl(v1, 17)
		v1 ^= v2
		v2 = rotl(v2, 32)
	}
	n := len(m)
	for ; len(m) >= 8; m = m[8:] {
		w := uint64(m[0]) | uint64(m[1])<<8 | uint64(m[2])<<16 | uint64(m[3])<<24 | uint64(m[4])<<32 | uint64(m[5])<<40 | uint64(m[6])<<48 | uint64(m[7])<<56
		v3 ^= w
		round()
		round()
		v0 ^= w
	}
	b := uint64(n) << 56
	for i, c := range m {
		b |= uint64(c) << (8 * uint(i))
	}
	v3 ^= b
	round()
	round()
	v0 ^= b
	v2 ^= 0xff
	round()
	round()
	round()
	round()
	return v0 ^ v1 ^ v2 ^ v3
}

// collidingPrograms returns up to four 20-byte programs: p0,p1 agree in the low 32 bits of siphash24(0,0,.), p2,p3 in
// the high 32 bits (nil if the reference vector of the SipHash paper does not check out or nothing is found).
func collidingPrograms(r *vlib.Rand) [][]byte {
	vec := make([]byte, 15)
	for i := range vec {
		vec[i] = byte(i)
	}
	if siphash24(0x0706050403020100, 0x0f0e0d0c0b0a0908, vec) != 0xa129ca6149be45e5 {
		return nil
	}
	var out [][]byte
	for _, shift := range []uint{0, 32} {
		seen := map[uint32][]byte{}
		for i := 0; i < 600000; i++ {
			p := r.Bytes(20)
			k := uint32(siphash24(0, 0, p) >> shift)
			if q, ok := seen[k]; ok && string(q) != string(p) {
				out = append(out, q, p)
				break
			}
			seen[k] = p
		}
	}
	return out
}
