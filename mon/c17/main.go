// C17 — per-address balances equal the projection of the UTXO set (see mon/balmon).
package main

import "verif/mon/balmon"

func main() { balmon.Main() }
