// C11 — block processing is race-free and its result independent of scheduling (see mon/racemon).
package main

import "verif/mon/racemon"

func main() { racemon.Main() }
