package main

// Message signatures of the wallet binary (`wallet -sign <address> -msg <text>`): the user-visible form of "own
// signatures verify and public-key recovery returns the signer's key". The 65 bytes it prints (header, r, s) are
// checked against the key that was imported: with -rfc6979 r and s equal the RFC 6979 reference signature, the ECDSA
// equation holds for the signer's key, and the header byte names the recovery id that leads to that key. Messages
// are chosen so that r or s has leading zero bytes in a third of the cases (found by signing with the reference).

import (
	"bytes"
	"crypto/sha256"
	"encoding/base64"
	"fmt"
	"math/big"
	"os"
	"os/exec"
	"path/filepath"
	"strings"
	"time"

	"verif/lib/vlib"
	"verif/ref/refaddr"
	"verif/ref/refec"
)

func repoDir() string {
	if r := os.Getenv("VERIF_REPO"); r != "" {
		return r
	}
	return "/repo"
}

func walletEnv() []string {
	var out []string
	for _, e := range os.Environ() {
		if strings.HasPrefix(e, "GOCOIN_WALLET_CONFIG=") || strings.HasPrefix(e, "GOFLAGS=") {
			continue
		}
		out = append(out, e)
	}
	return out
}

func compactSize(n int) []byte {
	switch {
	case n < 0xfd:
		return []byte{byte(n)}
	case n <= 0xffff:
		return []byte{0xfd, byte(n), byte(n >> 8)}
	}
	return []byte{0xfe, byte(n), byte(n >> 8), byte(n >> 16), byte(n >> 24)}
}

// messageHash: double SHA256 of compactsize-prefixed magic and message (the "Bitcoin Signed Message" convention)
func messageHash(msg []byte) []byte {
	magic := []byte("Bitcoin Signed Message:\n")
	b := append(compactSize(len(magic)), magic...)
	b = append(b, compactSize(len(msg))...)
	b = append(b, msg...)
	h1 := sha256.Sum256(b)
	h2 := sha256.Sum256(h1[:])
	return h2[:]
}

func walletMessages(run *vlib.Run, tmp string) {
	bin := filepath.Join(tmp, "wallet")
	cmd := exec.Command("go", "build", "-o", bin, "./wallet")
	cmd.Dir = repoDir()
	cmd.Env = append(walletEnv(), "GOFLAGS=-mod=mod", "GOPROXY=off", "GOSUMDB=off", "GOTOOLCHAIN=local")
	if out, err := cmd.CombinedOutput(); err != nil {
		fmt.Printf("BROKEN property=%s cannot build the wallet: %v\n%s\n", ID, err, vlib.Tail(out, 2000))
		os.Exit(2)
	}
	r := run.Rand("wallet-messages")
	nkeys := run.N(6, 60)
	type job struct {
		d          *big.Int
		compressed bool
		rfc        bool
		msgs       []string
	}
	var jobs []job
	for k := 0; k < nkeys; k++ {
		var d *big.Int
		for {
			d = new(big.Int).SetBytes(r.Bytes(32))
			if d.Sign() > 0 && d.Cmp(refec.N) < 0 {
				break
			}
		}
		j := job{d: d, compressed: r.Intn(4) != 0, rfc: r.Intn(4) != 0}
		// two or three messages whose reference signature has a short r or s, three ordinary ones
		short := 0
		for i := 0; i < 3000 && short < 3; i++ {
			m := fmt.Sprintf("verif message %d/%d %x", k, i, r.Bytes(2))
			rr, ss, _ := refec.ECDSASignRFC6979(d, messageHash([]byte(m)), false)
			if rr.BitLen() <= 248 || ss.BitLen() <= 248 {
				j.msgs = append(j.msgs, m)
				short++
			}
		}
		for i := 0; i < 3; i++ {
			j.msgs = append(j.msgs, []string{"hello", "a message with spaces and = signs", strings.Repeat("long ", 60)}[i]+fmt.Sprintf(" %d", k))
		}
		jobs = append(jobs, j)
	}
	vlib.Parallel(len(jobs), 8, func(k int) {
		j := jobs[k]
		dir := filepath.Join(tmp, fmt.Sprintf("wm%d", k))
		os.MkdirAll(dir, 0o755)
		defer os.RemoveAll(dir)
		pub := refec.ScalarMult(j.d, refec.G())
		pubBytes := pub.SerializeUncompressed()
		if j.compressed {
			pubBytes = pub.SerializeCompressed()
		}
		addr := refaddr.Base58CheckEncode(append([]byte{0x00}, refaddr.Hash160(pubBytes)...))
		os.WriteFile(filepath.Join(dir, ".secret"), []byte("verif password"), 0o600)
		os.WriteFile(filepath.Join(dir, ".others"), []byte(refaddr.WIFEncode(0x80, refec.Bytes32(j.d), j.compressed)+" imported\n"), 0o600)
		os.WriteFile(filepath.Join(dir, "wallet.cfg"), []byte("keycnt=1\n"), 0o600)
		for _, m := range j.msgs {
			args := []string{"-sign", addr, "-msg", m}
			if j.rfc {
				args = append([]string{"-rfc6979"}, args...)
			}
			c := exec.Command(bin, args...)
			c.Dir = dir
			c.Env = walletEnv()
			c.Stdin = bytes.NewReader(nil)
			var so, se bytes.Buffer
			c.Stdout, c.Stderr = &so, &se
			done := make(chan error, 1)
			if err := c.Start(); err != nil {
				run.Inconclusive("wallet -sign: cannot start the wallet: %v", err)
				return
			}
			go func() { done <- c.Wait() }()
			select {
			case <-done:
			case <-time.After(2 * time.Minute):
				c.Process.Kill()
				<-done
				run.Inconclusive("wallet -sign: watchdog fired")
				return
			}
			wit := map[string]interface{}{"args": args, ".others": "WIF of the key below", "private_key": vlib.Hex(refec.Bytes32(j.d)), "compressed": j.compressed,
				"stdout": vlib.Tail(so.Bytes(), 600), "stderr": vlib.Tail(se.Bytes(), 600)}
			lines := strings.Fields(strings.TrimSpace(so.String()))
			var sb []byte
			if len(lines) > 0 {
				sb, _ = base64.StdEncoding.DecodeString(lines[len(lines)-1])
			}
			run.Inc("wallet_message_signatures_requested")
			if len(sb) != 65 {
				run.Violation("wallet-message/no-signature", "wallet -sign printed no 65-byte base64 signature for a key it holds", wit)
				continue
			}
			h := messageHash([]byte(m))
			rr, ss := new(big.Int).SetBytes(sb[1:33]), new(big.Int).SetBytes(sb[33:65])
			wit["signature"] = vlib.Hex(sb)
			if ok, why := refec.ECDSAVerifyPoint(pub, rr, ss, h); !ok {
				run.Violation("wallet-message/does-not-verify", "the message signature printed by the wallet does not verify for the signer's key: "+why, wit)
				continue
			}
			hdr := int(sb[0]) - 27
			wantComp := 0
			if j.compressed {
				wantComp = 4
			}
			if hdr < 0 || hdr > 7 || hdr&4 != wantComp {
				run.Violation("wallet-message/header", fmt.Sprintf("header byte %d does not match the key's form (compressed=%v)", sb[0], j.compressed), wit)
				continue
			}
			if q, ok := refec.ECDSARecover(rr, ss, h, hdr&3); !ok || !q.Equal(pub) {
				run.Violation("wallet-message/recovery", "public-key recovery with the recovery id of the header byte does not return the signer's key", wit)
				continue
			}
			if j.rfc {
				r0, s0, _ := refec.ECDSASignRFC6979(j.d, h, false)
				if r0.Cmp(rr) != 0 || s0.Cmp(ss) != 0 {
					run.Violation("wallet-message/not-rfc6979", "with -rfc6979 the message signature differs from the RFC 6979 reference signature", wit)
					continue
				}
				run.Inc("wallet_message_signatures_equal_to_rfc6979_reference")
			}
			if rr.BitLen() <= 248 || ss.BitLen() <= 248 {
				run.Inc("wallet_message_signatures_with_short_r_or_s")
			}
			run.Inc("wallet_message_signatures_ok")
			run.Distinct("cases", "wallet-message", vlib.Hex(sb))
			run.Inc("evaluations")
		}
	})
}
