// C03 — ECDSA / BIP340 / BIP341-tweak predicates are exact; own signatures verify.
//
// Differential monitor: every case is a byte-level input of btc.EcdsaVerify, btc.SchnorrVerify or
// btc.CheckPayToContract, or a (secret key, message, aux) input of the library's signers. The oracle is
// /verif/ref/refec (math/big, written from SEC1 / RFC6979 / BIP340 / BIP341, calibrated at start-up).
// DER inputs are restricted to encodings whose integer values are unambiguous (refec.ParseDER);
// ambiguous encodings are counted and skipped. Cases run in child workers which journal each case
// before executing it.
package main

import (
	"bytes"
	"encoding/json"
	"fmt"
	"math/big"
	"os"
	"strconv"
	"strings"
	"time"

	"github.com/piotrnar/gocoin/lib/btc"
	"github.com/piotrnar/gocoin/lib/secp256k1"
	"verif/lib/vlib"
	"verif/ref/refec"
	"verif/ref/refscript"
)

const ID = "C03"

var (
	N = refec.N
	P = refec.P
)

func hx(b []byte) string { return vlib.Hex(b) }

// ---------------------------------------------------------------------------------------------
// worker plumbing

type wk struct {
	run     *vlib.Run
	fam     string
	chunk   int
	rng     *vlib.Rand
	journal *os.File
	n       int
}

func (w *wk) note(kind string, fields ...string) {
	w.n++
	if w.journal != nil {
		s := fmt.Sprintf("%s chunk=%d case=%d %s %s\n", w.fam, w.chunk, w.n, kind, strings.Join(fields, " "))
		if len(s) > 1500 {
			s = s[:1500] + "\n"
		}
		w.journal.WriteAt([]byte(s+strings.Repeat(" ", 1501-len(s))), 0)
	}
}

func (w *wk) scalar() *big.Int { // uniform-ish in [1, n-1]
	v := new(big.Int).SetBytes(w.rng.Bytes(40))
	v.Mod(v, new(big.Int).Sub(N, big.NewInt(1)))
	return v.Add(v, big.NewInt(1))
}

// edge-biased 32-byte message
func (w *wk) message() []byte {
	switch w.rng.Intn(12) {
	case 0:
		return make([]byte, 32)
	case 1:
		return bytes.Repeat([]byte{0xff}, 32)
	case 2:
		return refec.Bytes32(N)
	case 3:
		return refec.Bytes32(new(big.Int).Add(N, big.NewInt(int64(w.rng.Intn(3)+1))))
	case 4:
		return refec.Bytes32(new(big.Int).Sub(N, big.NewInt(1)))
	case 5:
		return refec.Bytes32(big.NewInt(int64(w.rng.Intn(3))))
	}
	return w.rng.Bytes(32)
}

type triple struct {
	d    *big.Int
	pub  refec.Point
	msg  []byte
	r, s *big.Int
}

func (w *wk) validTriple() triple {
	for {
		d := w.scalar()
		msg := w.message()
		r, s, _, ok := refec.ECDSASignWithNonce(d, msg, w.scalar(), w.rng.Bool())
		if ok {
			return triple{d, refec.ScalarBaseMult(d), msg, r, s}
		}
	}
}

// forgeFor builds a valid (r, s, msg) for an arbitrary curve point q without a secret key:
// R = u1*G + u2*Q, r = R.x mod n, s = r/u2, m = u1*s (reference arithmetic).
func (w *wk) forgeFor(q refec.Point) (r, s *big.Int, msg []byte) {
	for {
		u1, u2 := w.scalar(), w.scalar()
		R := refec.MulAdd(u2, q, u1)
		if R.Inf {
			continue
		}
		r = new(big.Int).Mod(R.X, N)
		if r.Sign() == 0 {
			continue
		}
		s = new(big.Int).Mul(r, new(big.Int).ModInverse(u2, N))
		s.Mod(s, N)
		m := new(big.Int).Mul(u1, s)
		m.Mod(m, N)
		if s.Sign() == 0 {
			continue
		}
		return r, s, refec.Bytes32(m)
	}
}

// gocoinForge does the same with gocoin's own arithmetic on whatever gocoin's key parser makes of
// `pub` (used for keys that are not curve points: the implementation's own arithmetic closes the
// equation). Generator side only; the oracle never sees these internals.
func (w *wk) gocoinForge(pub []byte) (r, s *big.Int, msg []byte, ok bool) {
	defer func() {
		if recover() != nil {
			ok = false
		}
	}()
	var q secp256k1.XY
	if !q.ParsePubkey(pub) {
		return nil, nil, nil, false
	}
	for try := 0; try < 4; try++ {
		u1, u2 := w.scalar(), w.scalar()
		var qj, pr secp256k1.XYZ
		var n1, n2 secp256k1.Number
		n1.Set(u1)
		n2.Set(u2)
		qj.SetXY(&q)
		qj.ECmult(&pr, &n2, &n1)
		if pr.IsInfinity() {
			continue
		}
		var R secp256k1.XY
		R.SetXYZ(&pr)
		R.X.Normalize()
		var b [32]byte
		R.X.GetB32(b[:])
		r = new(big.Int).Mod(new(big.Int).SetBytes(b[:]), N)
		if r.Sign() == 0 {
			continue
		}
		s = new(big.Int).Mul(r, new(big.Int).ModInverse(u2, N))
		s.Mod(s, N)
		if s.Sign() == 0 {
			continue
		}
		m := new(big.Int).Mul(u1, s)
		m.Mod(m, N)
		return r, s, refec.Bytes32(m), true
	}
	return nil, nil, nil, false
}

// ---------------------------------------------------------------------------------------------
// predicates under test (panics are caught per case)

func callEcdsa(pub, sig, msg []byte) (res bool, pan interface{}) {
	defer func() { pan = recover() }()
	return btc.EcdsaVerify(pub, sig, msg), nil
}
func callSchnorr(pk, sig, msg []byte) (res bool, pan interface{}) {
	defer func() { pan = recover() }()
	return btc.SchnorrVerify(pk, sig, msg), nil
}
func callTweak(q, p, t []byte, parity bool) (res bool, pan interface{}) {
	defer func() { pan = recover() }()
	return btc.CheckPayToContract(q, p, t, parity), nil
}

func (w *wk) judge(pred, sub string, exp bool, reason string, got bool, pan interface{}, wit map[string]interface{}) {
	run := w.run
	run.Inc("cases/" + w.fam)
	run.Inc("evaluations")
	run.Distinct("cases", pred, wit["pub"], wit["sig"], wit["msg"], wit["q"], wit["p"], wit["t"], wit["parity"])
	if exp {
		run.Inc("ref_accepts/" + w.fam)
		run.Distinct("accepting_subfamilies", pred, sub)
	} else {
		run.Inc("ref_reject_reason/" + pred + "/" + reason)
		run.Distinct("reject_reasons", pred, reason)
	}
	wit["predicate"] = pred
	wit["family"] = w.fam
	wit["sub"] = sub
	wit["reference_accepts"] = exp
	wit["reference_reason"] = reason
	wit["gocoin_accepts"] = got
	if pan != nil {
		wit["panic"] = fmt.Sprint(pan)
		run.Violation(pred+"-panics@"+w.fam, fmt.Sprintf("%s panicked on %s/%s input: %v", pred, w.fam, sub, pan), wit)
		return
	}
	if got == exp {
		if run.WantSample() && (w.n%97 == 1) {
			run.Sample(wit)
		}
		return
	}
	var class, what string
	if got {
		class = fmt.Sprintf("%s-accepts/%s@%s", pred, reason, w.fam)
		what = fmt.Sprintf("gocoin accepts, reference rejects (%s), generator %s/%s", reason, w.fam, sub)
	} else {
		class = fmt.Sprintf("%s-rejects-valid/%s@%s", pred, sub, w.fam)
		what = fmt.Sprintf("gocoin rejects an input the reference accepts, generator %s/%s", w.fam, sub)
	}
	run.Inc("disagree/" + class)
	run.Violation(class, what, wit)
}

// ecdsa runs one ECDSA case. The signature bytes are read the way the consensus verifier reads them
// (ecdsa_signature_parse_der_lax, independent port in ref/refscript): the property speaks about r, s and the
// equation, not about the strictness of the encoding (that is C01's DERSIG/STRICTENC/LOW_S). `trailing` is kept
// for the generators' bookkeeping only: bytes behind S are ignored by that parser.
func (w *wk) ecdsa(sub string, pub, sig, msg []byte, trailing int) {
	w.note("ecdsa", sub, hx(pub), hx(sig), hx(msg))
	var exp bool
	var reason string
	if r, s, ok := refscript.ParseDERLax(sig); !ok {
		exp, reason = false, "der-unparsable"
	} else {
		if _, _, st := refec.ParseDER(sig, trailing); st != refec.DEROK {
			w.run.Inc("non_strict_der_judged_by_lax_parser/" + w.fam)
		}
		exp, reason = refec.ECDSAVerify(pub, r, s, msg)
	}
	got, pan := callEcdsa(pub, sig, msg)
	w.judge("ecdsa", sub, exp, reason, got, pan, map[string]interface{}{"pub": hx(pub), "sig": hx(sig), "msg": hx(msg)})
}

func (w *wk) schnorr(sub string, pk, sig, msg []byte) {
	w.note("schnorr", sub, hx(pk), hx(sig), hx(msg))
	exp, reason := refec.SchnorrVerify(pk, msg, sig)
	got, pan := callSchnorr(pk, sig, msg)
	w.judge("schnorr", sub, exp, reason, got, pan, map[string]interface{}{"pub": hx(pk), "sig": hx(sig), "msg": hx(msg)})
}

func (w *wk) tweak(sub string, q, p, t []byte, parity bool) {
	w.note("tweak", sub, hx(q), hx(p), hx(t), fmt.Sprint(parity))
	exp, reason := refec.TaprootTweakCheck(q, p, t, parity)
	got, pan := callTweak(q, p, t, parity)
	w.judge("tweak", sub, exp, reason, got, pan, map[string]interface{}{"q": hx(q), "p": hx(p), "t": hx(t), "parity": parity})
}

// ---------------------------------------------------------------------------------------------
// small-coordinate points: x (resp. y) below 2^32+977 so that x+p (y+p) still fits in 32 bytes

func smallXPoints(n int) []refec.Point {
	var res []refec.Point
	for x := int64(1); len(res) < n; x++ {
		if pt, ok := refec.LiftX(big.NewInt(x)); ok {
			res = append(res, pt)
		}
	}
	return res
}

func smallYPoints(n int) []refec.Point {
	var res []refec.Point
	for y := int64(1); len(res) < n && y < 10000; y++ {
		yy := big.NewInt(y)
		c := refec.FSub(refec.FSqr(yy), refec.B) // x^3 = y^2 - 7
		if x, ok := refec.FCbrt(c); ok {
			pt := refec.Point{X: x, Y: yy}
			if pt.IsOnCurve() {
				res = append(res, pt)
			}
		}
	}
	return res
}

func nonResidueX(r *vlib.Rand) *big.Int {
	for {
		x := new(big.Int).SetBytes(r.Bytes(32))
		if x.Cmp(P) >= 0 {
			continue
		}
		if _, ok := refec.LiftX(x); !ok {
			return x
		}
	}
}

func plusP(v *big.Int) []byte { return refec.Bytes32(new(big.Int).Add(v, P)) }

// ---------------------------------------------------------------------------------------------
// families

func keyEncodings(pt refec.Point) map[string][]byte {
	return map[string][]byte{"compressed": pt.SerializeCompressed(), "uncompressed": pt.SerializeUncompressed(), "hybrid": pt.SerializeHybrid()}
}

var encNames = []string{"compressed", "uncompressed", "hybrid"}

func (w *wk) famValid(n int) {
	for i := 0; i < n; i++ {
		t := w.validTriple()
		name := encNames[w.rng.Intn(3)]
		pub := keyEncodings(t.pub)[name]
		sig := refec.EncodeDER(t.r, t.s)
		sub := name
		switch w.rng.Intn(6) {
		case 0: // complementary s: still in range, still valid
			sig = refec.EncodeDER(t.r, new(big.Int).Sub(N, t.s))
			sub += "+complement-s"
		case 1: // hash-type byte after the sequence, as Bitcoin carries it
			sig = append(sig, byte(w.rng.Intn(256)))
			sub += "+hashtype"
			w.ecdsa(sub, pub, sig, t.msg, 1)
			continue
		case 2: // zero-padded integers: value unchanged
			rb := append(make([]byte, 1+w.rng.Intn(3)), t.r.Bytes()...)
			sb := append(make([]byte, 1+w.rng.Intn(3)), t.s.Bytes()...)
			sig = refec.EncodeDERRaw(rb, sb)
			sub += "+zero-padded"
		}
		w.ecdsa(sub, pub, sig, t.msg, 0)
	}
}

// every single-bit mutation of (pub, sig, msg) of `n` valid triples
func (w *wk) famBitflip(n int) {
	for i := 0; i < n; i++ {
		t := w.validTriple()
		name := encNames[(w.chunk+i)%3]
		pub := keyEncodings(t.pub)[name]
		sig := refec.EncodeDER(t.r, t.s)
		w.ecdsa(name+"/unmutated", pub, sig, t.msg, 0)
		parts := [][]byte{pub, sig, t.msg}
		for pi, part := range parts {
			for bit := 0; bit < len(part)*8; bit++ {
				m := [][]byte{append([]byte(nil), pub...), append([]byte(nil), sig...), append([]byte(nil), t.msg...)}
				m[pi][bit/8] ^= 1 << uint(bit%8)
				w.ecdsa(fmt.Sprintf("%s/flip-%s", name, []string{"pub", "sig", "msg"}[pi]), m[0], m[1], m[2], 0)
			}
		}
	}
}

func (w *wk) famRSEdge(n int) {
	k := func() *big.Int { return big.NewInt(int64(1 + w.rng.Intn(1000))) }
	add := func(a, b *big.Int) *big.Int { return new(big.Int).Add(a, b) }
	sub := func(a, b *big.Int) *big.Int { return new(big.Int).Sub(a, b) }
	max256 := sub(refec.Two256, big.NewInt(1))
	for i := 0; i < n; i++ {
		t := w.validTriple()
		pub := keyEncodings(t.pub)[encNames[w.rng.Intn(3)]]
		edge := []*big.Int{big.NewInt(0), big.NewInt(1), sub(N, big.NewInt(1)), N, add(N, big.NewInt(1)), add(N, k()), P, max256, refec.HalfN, add(refec.HalfN, big.NewInt(1)), refec.Two256, add(refec.Two256, k())}
		switch w.rng.Intn(8) {
		case 0: // s + n, 33-byte integer
			w.ecdsa("s+n", pub, refec.EncodeDER(t.r, add(t.s, N)), t.msg, 0)
		case 1:
			w.ecdsa("r+n", pub, refec.EncodeDER(add(t.r, N), t.s), t.msg, 0)
		case 2:
			m := big.NewInt(int64(2 + w.rng.Intn(200)))
			w.ecdsa("s+k*n", pub, refec.EncodeDER(t.r, add(t.s, new(big.Int).Mul(m, N))), t.msg, 0)
		case 3:
			w.ecdsa("r+n,s+n", pub, refec.EncodeDER(add(t.r, N), add(t.s, N)), t.msg, 0)
		case 4: // valid r, edge s
			e := edge[w.rng.Intn(len(edge))]
			w.ecdsa("s=edge", pub, refec.EncodeDER(t.r, e), t.msg, 0)
		case 5:
			e := edge[w.rng.Intn(len(edge))]
			w.ecdsa("r=edge", pub, refec.EncodeDER(e, t.s), t.msg, 0)
		case 6:
			w.ecdsa("r=edge,s=edge", pub, refec.EncodeDER(edge[w.rng.Intn(len(edge))], edge[w.rng.Intn(len(edge))]), t.msg, 0)
		case 7: // complementary s plus n: n-s+n
			w.ecdsa("(n-s)+n", pub, refec.EncodeDER(t.r, add(sub(N, t.s), N)), t.msg, 0)
		}
	}
}

func (w *wk) famKeyEnc(n int) {
	sx := smallXPoints(8)
	sy := smallYPoints(4)
	w.run.Count("small_x_points_found", int64(len(sx)))
	w.run.Count("small_y_points_found", int64(len(sy)))
	for i := 0; i < n; i++ {
		switch w.rng.Intn(10) {
		case 0: // wrong prefix / wrong length around a valid triple
			t := w.validTriple()
			sig := refec.EncodeDER(t.r, t.s)
			u := t.pub.SerializeUncompressed()
			c := t.pub.SerializeCompressed()
			switch w.rng.Intn(6) {
			case 0:
				c[0] = []byte{0, 1, 4, 5, 6, 7, 8, 0xff}[w.rng.Intn(8)]
				w.ecdsa("bad-prefix-33", c, sig, t.msg, 0)
			case 1:
				u[0] = []byte{0, 1, 2, 3, 5, 8, 0xff}[w.rng.Intn(7)]
				w.ecdsa("bad-prefix-65", u, sig, t.msg, 0)
			case 2:
				w.ecdsa("short-key", u[:w.rng.Intn(65)], sig, t.msg, 0)
			case 3:
				w.ecdsa("long-key", append(u, byte(w.rng.Intn(256))), sig, t.msg, 0)
			case 4: // hybrid with the wrong parity tag
				h := t.pub.SerializeHybrid()
				h[0] ^= 1
				w.ecdsa("hybrid-wrong-parity", h, sig, t.msg, 0)
			case 5: // compressed with the other parity: a different, valid key
				c[0] ^= 1
				w.ecdsa("compressed-other-parity", c, sig, t.msg, 0)
			}
		case 1, 2: // x replaced by x+p (small-x curve points, signature forged with reference arithmetic)
			pt := sx[w.rng.Intn(len(sx))]
			if w.rng.Bool() {
				pt = pt.Neg()
			}
			r, s, msg := w.forgeFor(pt)
			sig := refec.EncodeDER(r, s)
			switch w.rng.Intn(4) {
			case 0:
				w.ecdsa("small-x/canonical", pt.SerializeCompressed(), sig, msg, 0)
			case 1:
				k := pt.SerializeCompressed()
				copy(k[1:], plusP(pt.X))
				w.ecdsa("x+p/compressed", k, sig, msg, 0)
			case 2:
				k := pt.SerializeUncompressed()
				copy(k[1:33], plusP(pt.X))
				w.ecdsa("x+p/uncompressed", k, sig, msg, 0)
			case 3:
				k := pt.SerializeHybrid()
				copy(k[1:33], plusP(pt.X))
				w.ecdsa("x+p/hybrid", k, sig, msg, 0)
			}
		case 3: // y replaced by y+p
			if len(sy) == 0 {
				continue
			}
			pt := sy[w.rng.Intn(len(sy))]
			r, s, msg := w.forgeFor(pt)
			sig := refec.EncodeDER(r, s)
			switch w.rng.Intn(4) {
			case 0:
				w.ecdsa("small-y/canonical", pt.SerializeUncompressed(), sig, msg, 0)
			case 1:
				k := pt.SerializeUncompressed()
				copy(k[33:], plusP(pt.Y))
				w.ecdsa("y+p/uncompressed", k, sig, msg, 0)
			case 2: // hybrid tag chosen after the parity of the raw value y+p
				k := pt.SerializeUncompressed()
				copy(k[33:], plusP(pt.Y))
				k[0] = 6 + (k[64] & 1)
				w.ecdsa("y+p/hybrid-tag-of-raw", k, sig, msg, 0)
			case 3: // hybrid tag chosen after the parity of y
				k := pt.SerializeHybrid()
				copy(k[33:], plusP(pt.Y))
				w.ecdsa("y+p/hybrid-tag-of-reduced", k, sig, msg, 0)
			}
		case 4: // x without a square root, random signature
			x := nonResidueX(w.rng)
			t := w.validTriple()
			k := append([]byte{byte(2 + w.rng.Intn(2))}, refec.Bytes32(x)...)
			w.ecdsa("x-no-sqrt/random-sig", k, refec.EncodeDER(t.r, t.s), t.msg, 0)
		case 5: // off-curve (x,y), random signature
			t := w.validTriple()
			k := t.pub.SerializeUncompressed()
			switch w.rng.Intn(3) {
			case 0:
				copy(k[33:], w.rng.Bytes(32))
			case 1:
				copy(k[1:33], w.rng.Bytes(32))
			case 2:
				k = append([]byte{4}, make([]byte, 64)...)
				k[32], k[64] = byte(w.rng.Intn(3)), byte(w.rng.Intn(3))
			}
			w.ecdsa("off-curve/random-sig", k, refec.EncodeDER(t.r, t.s), t.msg, 0)
		case 6: // coordinate edge values
			t := w.validTriple()
			k := t.pub.SerializeUncompressed()
			ev := [][]byte{make([]byte, 32), refec.Bytes32(P), refec.Bytes32(new(big.Int).Sub(P, big.NewInt(1))), bytes.Repeat([]byte{0xff}, 32), refec.Bytes32(N)}
			if w.rng.Bool() {
				copy(k[1:33], ev[w.rng.Intn(len(ev))])
			} else {
				copy(k[33:], ev[w.rng.Intn(len(ev))])
			}
			if w.rng.Intn(3) == 0 {
				c := append([]byte{byte(2 + w.rng.Intn(2))}, ev[w.rng.Intn(len(ev))]...)
				w.ecdsa("coordinate-edge/compressed", c, refec.EncodeDER(t.r, t.s), t.msg, 0)
			} else {
				w.ecdsa("coordinate-edge/uncompressed", k, refec.EncodeDER(t.r, t.s), t.msg, 0)
			}
		default: // all three encodings of one valid triple
			t := w.validTriple()
			encs := keyEncodings(t.pub)
			for _, name := range encNames {
				w.ecdsa("enc/"+name, encs[name], refec.EncodeDER(t.r, t.s), t.msg, 0)
			}
		}
	}
}

// pointsNear returns the first `cnt` curve points with x = base + step*j, j = 1, 2, ... (even Y).
func pointsNear(base *big.Int, step int64, cnt int) []refec.Point {
	var res []refec.Point
	for j := int64(1); len(res) < cnt; j++ {
		x := new(big.Int).Add(base, big.NewInt(step*j))
		if pt, ok := refec.LiftX(x); ok {
			res = append(res, pt)
		}
	}
	return res
}

// famBoundary: triples that are valid (or invalid) *by construction* at the range boundaries that honest
// signing never reaches: nonce point with x in [n, p) (r = x - n), nonce point with tiny x (r + n < p),
// s = 1 / n-1, key and tweak operands just below p / n. The public key is derived from the chosen
// (R, r, s, m) as Q = r^-1 (s*R - m*G) with reference arithmetic, so no secret key is needed.
func (w *wk) famBoundary(n int) {
	geN := pointsNear(N, 1, 6)     // x = n + j on the curve
	small := smallXPoints(6)       // x = j
	belowP := pointsNear(P, -1, 6) // x = p - j
	b32 := refec.Bytes32
	one := big.NewInt(1)
	nm1 := new(big.Int).Sub(N, one)
	w.run.Count("boundary_points_x>=n", int64(len(geN)))
	offer := func(sub string, Q refec.Point, r, s *big.Int, msg []byte) {
		encs := keyEncodings(Q)
		for _, name := range encNames {
			w.ecdsa(sub+"/"+name, encs[name], refec.EncodeDER(r, s), msg, 0)
		}
	}
	sVals := func() []*big.Int {
		return []*big.Int{w.scalar(), one, nm1, refec.HalfN, new(big.Int).Add(refec.HalfN, one)}
	}
	for i := 0; i < n; i++ {
		// 1. R.x in [n, p): r = R.x - n
		R := geN[(i+w.chunk)%len(geN)]
		j := new(big.Int).Sub(R.X, N)
		for par := 0; par < 2; par++ {
			for _, s := range sVals() {
				msg := w.message()
				Q, ok := refec.ECDSARecover(j, s, msg, 2|par)
				if !ok {
					continue
				}
				offer("R.x>=n", Q, j, s, msg)
				// the same signature with r written unreduced (r = R.x >= n) is out of range
				w.ecdsa("R.x>=n/r-unreduced", Q.SerializeCompressed(), refec.EncodeDER(R.X, s), msg, 0)
			}
		}
		// 2. tiny R.x: r = R.x is valid, r + n (< p, also "an x coordinate") is not
		Rs := small[(i+w.chunk)%len(small)]
		for par := 0; par < 2; par++ {
			s, msg := w.scalar(), w.message()
			Q, ok := refec.ECDSARecover(Rs.X, s, msg, par)
			if !ok {
				continue
			}
			offer("R.x-small", Q, Rs.X, s, msg)
			w.ecdsa("R.x-small/r+n", Q.SerializeCompressed(), refec.EncodeDER(new(big.Int).Add(Rs.X, N), s), msg, 0)
			w.ecdsa("R.x-small/r+n/uncompressed", Q.SerializeUncompressed(), refec.EncodeDER(new(big.Int).Add(Rs.X, N), s), msg, 0)
		}
		// 3. ordinary nonce point, s at the ends of [1, n-1]
		Rk := refec.ScalarBaseMult(w.scalar())
		for _, s := range []*big.Int{one, nm1, big.NewInt(2), new(big.Int).Sub(N, big.NewInt(2))} {
			msg := w.message()
			rr := new(big.Int).Mod(Rk.X, N)
			Q, ok := refec.ECDSARecover(rr, s, msg, int(Rk.Y.Bit(0)))
			if !ok {
				continue
			}
			offer("s-at-range-end", Q, rr, s, msg)
		}
		// 4. key coordinates just below p
		K := belowP[(i+w.chunk)%len(belowP)]
		if w.rng.Bool() {
			K = K.Neg()
		}
		r, s, msg := w.forgeFor(K)
		offer("key-x-just-below-p", K, r, s, msg)
		for _, sy := range smallYPoints(2) {
			Kn := sy.Neg() // y = p - small
			r, s, msg := w.forgeFor(Kn)
			offer("key-y-just-below-p", Kn, r, s, msg)
		}
		// 5. BIP341 operands at the boundaries
		Pi := belowP[(i+w.chunk+1)%len(belowP)] // even Y: a liftable internal key with x = p - j
		t := refec.TapTweakHash(b32(Pi.X), w.rng.Bytes(32))
		if Q, why := refec.TaprootOutputKey(b32(Pi.X), t); why == "" {
			w.tweak("internal-x-just-below-p", b32(Q.X), b32(Pi.X), t, Q.Y.Bit(0) == 1)
		}
		Qo := belowP[(i+w.chunk+2)%len(belowP)]
		if w.rng.Bool() {
			Qo = Qo.Neg()
		}
		tt := w.scalar()
		if Pin := refec.Add(Qo, refec.ScalarBaseMult(tt).Neg()); !Pin.Inf && Pin.Y.Bit(0) == 0 {
			w.tweak("output-x-just-below-p", b32(Qo.X), b32(Pin.X), b32(tt), Qo.Y.Bit(0) == 1)
		}
		d := w.scalar()
		Ph := refec.ScalarBaseMult(d)
		if Ph.Y.Bit(0) == 1 {
			Ph = Ph.Neg()
		}
		for _, tv := range []*big.Int{nm1, one, big.NewInt(0), new(big.Int).Sub(N, big.NewInt(2)), N} {
			Qe := refec.Add(Ph, refec.ScalarBaseMult(new(big.Int).Mod(tv, N)))
			if Qe.Inf {
				continue
			}
			w.tweak("t-at-range-end", b32(Qe.X), b32(Ph.X), b32(tv), Qe.Y.Bit(0) == 1)
		}
		// 6. BIP340: r / pk that are x coordinates just below p, s = n-1 (no valid signature can be built for them
		// without the discrete log / a hash preimage: both sides must reject, for the equation, not the range)
		_, pk, m2, _, sig := w.schnorrTriple()
		mut := append([]byte(nil), sig...)
		copy(mut[:32], b32(belowP[i%len(belowP)].X))
		w.schnorr("r-on-curve-just-below-p", pk, mut, m2)
		w.schnorr("pk-liftable-just-below-p", b32(belowP[i%len(belowP)].X), sig, m2)
		mut = append([]byte(nil), sig...)
		copy(mut[32:], b32(nm1))
		w.schnorr("s=n-1", pk, mut, m2)
		w.schnorr("pk-x>=n-on-curve", b32(geN[i%len(geN)].X), sig, m2)
	}
}

// keys that are not curve points, signature built so that the implementation's own arithmetic closes
func (w *wk) famAlgebraic(n int) {
	for i := 0; i < n; i++ {
		var key []byte
		var sub string
		switch w.rng.Intn(4) {
		case 0:
			key = append([]byte{byte(2 + w.rng.Intn(2))}, refec.Bytes32(nonResidueX(w.rng))...)
			sub = "x-no-sqrt/compressed"
		case 1:
			key = append([]byte{4}, w.rng.Bytes(64)...)
			key[1] &= 0x7f
			key[33] &= 0x7f
			sub = "off-curve/uncompressed"
		case 2:
			key = append([]byte{4}, make([]byte, 64)...)
			key[32], key[64] = 1, 1 // the point (1,1)
			sub = "off-curve/(1,1)"
		case 3:
			key = append([]byte{4}, w.rng.Bytes(64)...)
			key[1] &= 0x7f
			key[33] &= 0x7f
			key[0] = 6 + key[64]&1
			sub = "off-curve/hybrid"
		}
		if _, why := refec.ParsePubKey(key); why == "" {
			continue // by chance a real point
		}
		r, s, msg, ok := w.gocoinForge(key)
		if !ok {
			w.run.Inc("algebraic_construction_failed")
			continue
		}
		w.ecdsa(sub, key, refec.EncodeDER(r, s), msg, 0)
	}
}

func (w *wk) schnorrTriple() (sk, pk, msg, aux, sig []byte) {
	for {
		sk = refec.Bytes32(w.scalar())
		msg = w.message()
		aux = w.rng.Bytes(32)
		s, err := refec.SchnorrSign(sk, msg, aux)
		if err != nil {
			continue
		}
		pk, _ = refec.XOnlyPubKey(sk)
		return sk, pk, msg, aux, s
	}
}

func (w *wk) famSchnorrValid(n int) {
	for i := 0; i < n; i++ {
		_, pk, msg, _, sig := w.schnorrTriple()
		w.schnorr("valid", pk, sig, msg)
	}
}

func (w *wk) famSchnorrFlip(n int) {
	for i := 0; i < n; i++ {
		_, pk, msg, _, sig := w.schnorrTriple()
		w.schnorr("unmutated", pk, sig, msg)
		parts := [][]byte{pk, sig, msg}
		for pi, part := range parts {
			for bit := 0; bit < len(part)*8; bit++ {
				m := [][]byte{append([]byte(nil), pk...), append([]byte(nil), sig...), append([]byte(nil), msg...)}
				m[pi][bit/8] ^= 1 << uint(bit%8)
				w.schnorr("flip-"+[]string{"pk", "sig", "msg"}[pi], m[0], m[1], m[2])
			}
		}
	}
}

func (w *wk) famSchnorrEdge(n int, csv [][]string) {
	sx := smallXPoints(8)
	b32 := refec.Bytes32
	add := func(a, b *big.Int) *big.Int { return new(big.Int).Add(a, b) }
	max256 := new(big.Int).Sub(refec.Two256, big.NewInt(1))
	for _, row := range csv { // the BIP340 vectors, offered to the implementation as well
		w.schnorr("bip340-csv-row-"+row[0], vlib.UnHex(strings.ToLower(row[2])), vlib.UnHex(strings.ToLower(row[5])), vlib.UnHex(strings.ToLower(row[4])))
	}
	for i := 0; i < n; i++ {
		sk, pk, msg, _, sig := w.schnorrTriple()
		d := refec.FromBytes(sk)
		rEdge := []*big.Int{big.NewInt(0), big.NewInt(1), P, add(P, big.NewInt(int64(1+w.rng.Intn(900)))), max256, new(big.Int).Sub(P, big.NewInt(1))}
		sEdge := []*big.Int{big.NewInt(0), big.NewInt(1), N, add(N, big.NewInt(int64(1+w.rng.Intn(900)))), max256, new(big.Int).Sub(N, big.NewInt(1))}
		mut := append([]byte(nil), sig...)
		switch w.rng.Intn(12) {
		case 0:
			copy(mut[:32], b32(rEdge[w.rng.Intn(len(rEdge))]))
			w.schnorr("r=edge", pk, mut, msg)
		case 1:
			copy(mut[32:], b32(sEdge[w.rng.Intn(len(sEdge))]))
			w.schnorr("s=edge", pk, mut, msg)
		case 2: // s+n when it fits in 32 bytes (practically never for a valid signature; counted)
			sn := add(refec.FromBytes(sig[32:]), N)
			if sn.BitLen() <= 256 {
				copy(mut[32:], b32(sn))
				w.run.Inc("schnorr_s_plus_n_fits")
				w.schnorr("s+n", pk, mut, msg)
			} else {
				copy(mut[32:], b32(new(big.Int).Sub(N, refec.FromBytes(sig[32:]))))
				w.schnorr("n-s", pk, mut, msg)
			}
		case 3: // r+p when it fits
			rp := add(refec.FromBytes(sig[:32]), P)
			if rp.BitLen() <= 256 {
				copy(mut[:32], b32(rp))
				w.run.Inc("schnorr_r_plus_p_fits")
				w.schnorr("r+p", pk, mut, msg)
			} else {
				copy(mut[:32], b32(new(big.Int).Sub(P, refec.FromBytes(sig[:32]))))
				w.schnorr("p-r", pk, mut, msg)
			}
		case 4: // nonce point with odd Y: R = k*G taken as is, s = k + e*d'
			k := w.scalar()
			R := refec.ScalarBaseMult(k)
			if R.Y.Bit(0) == 0 {
				k = new(big.Int).Sub(N, k)
				R = R.Neg()
			}
			Pp := refec.ScalarBaseMult(d)
			dd := d
			if Pp.Y.Bit(0) == 1 {
				dd = new(big.Int).Sub(N, d)
			}
			e := new(big.Int).Mod(refec.FromBytes(refec.TaggedHash("BIP0340/challenge", b32(R.X), pk, msg)), N)
			s := new(big.Int).Mod(add(k, new(big.Int).Mul(e, dd)), N)
			w.schnorr("odd-Y-nonce", pk, append(b32(R.X), b32(s)...), msg)
		case 5: // signature made with the un-negated key although P has odd Y (or vice versa)
			Pp := refec.ScalarBaseMult(d)
			dd := d
			if Pp.Y.Bit(0) == 0 {
				dd = new(big.Int).Sub(N, d)
			}
			k := w.scalar()
			R := refec.ScalarBaseMult(k)
			if R.Y.Bit(0) == 1 {
				k = new(big.Int).Sub(N, k)
			}
			e := new(big.Int).Mod(refec.FromBytes(refec.TaggedHash("BIP0340/challenge", b32(R.X), pk, msg)), N)
			s := new(big.Int).Mod(add(k, new(big.Int).Mul(e, dd)), N)
			w.schnorr("wrong-key-sign", pk, append(b32(R.X), b32(s)...), msg)
		case 6: // key not liftable
			w.schnorr("pk-not-liftable", b32(nonResidueX(w.rng)), sig, msg)
		case 7: // key >= p
			ev := [][]byte{b32(P), plusP(sx[w.rng.Intn(len(sx))].X), b32(max256), plusP(big.NewInt(int64(w.rng.Intn(1 << 20))))}
			w.schnorr("pk>=p", ev[w.rng.Intn(len(ev))], sig, msg)
		case 8: // key edge
			ev := [][]byte{make([]byte, 32), b32(big.NewInt(1)), b32(new(big.Int).Sub(P, big.NewInt(1))), b32(refec.Gx)}
			w.schnorr("pk=edge", ev[w.rng.Intn(len(ev))], sig, msg)
		case 9: // sG - eP = infinity: s = e*d for the key, r arbitrary x (BIP340 vector style)
			Pp := refec.ScalarBaseMult(d)
			dd := d
			if Pp.Y.Bit(0) == 1 {
				dd = new(big.Int).Sub(N, d)
			}
			rx := b32(sx[w.rng.Intn(len(sx))].X)
			e := new(big.Int).Mod(refec.FromBytes(refec.TaggedHash("BIP0340/challenge", rx, pk, msg)), N)
			s := new(big.Int).Mod(new(big.Int).Mul(e, dd), N)
			w.schnorr("R=infinity", pk, append(rx, b32(s)...), msg)
			// burst: many messages with r = x of a point the verifier's own multiplication handles last (G, the key,
			// 2^128*G). R = infinity must be refused whatever r is - also when r equals the x of coordinates left over in
			// the accumulator. By construction the expected verdict is "reject"; every 64th case (and every acceptance or
			// panic) goes through the reference as well.
			rxs := [][]byte{b32(refec.Gx), pk, b32(refec.ScalarBaseMult(new(big.Int).Lsh(big.NewInt(1), 128)).X)}
			burst := 360
			if w.run.Thorough() {
				burst = 45 // the thorough tier runs ~250 times as many cases of this family
			}
			for i := 0; i < burst; i++ {
				rx := rxs[i%len(rxs)]
				m := w.rng.Bytes(32)
				e := new(big.Int).Mod(refec.FromBytes(refec.TaggedHash("BIP0340/challenge", rx, pk, m)), N)
				sg := append(append([]byte(nil), rx...), b32(new(big.Int).Mod(new(big.Int).Mul(e, dd), N))...)
				got, pan := callSchnorr(pk, sg, m)
				if got || pan != nil || i%64 == 0 {
					w.schnorr("R=infinity/burst", pk, sg, m)
					continue
				}
				w.run.Inc("schnorr_r_infinity_burst_rejected")
				w.run.Inc("evaluations")
			}
		case 10: // other message lengths are outside BIP340's default signing; same 32-byte msg, swapped halves
			w.schnorr("sig-halves-swapped", pk, append(append([]byte(nil), sig[32:]...), sig[:32]...), msg)
		default: // signature of another key
			_, pk2, _, _, _ := w.schnorrTriple()
			w.schnorr("other-key", pk2, sig, msg)
		}
	}
}

func (w *wk) famTweak(n int) {
	sx := smallXPoints(8)
	b32 := refec.Bytes32
	for i := 0; i < n; i++ {
		d := w.scalar()
		Pp := refec.ScalarBaseMult(d)
		if Pp.Y.Bit(0) == 1 {
			d = new(big.Int).Sub(N, d)
			Pp = Pp.Neg()
		}
		p := b32(Pp.X)
		root := w.rng.Bytes(32)
		if w.rng.Intn(4) == 0 {
			root = nil // key-path-only commitment
		}
		t := refec.TapTweakHash(p, root)
		Q, why := refec.TaprootOutputKey(p, t)
		if why != "" {
			continue
		}
		q, par := b32(Q.X), Q.Y.Bit(0) == 1
		switch w.rng.Intn(14) {
		case 0, 1:
			w.tweak("valid", q, p, t, par)
		case 2:
			w.tweak("wrong-parity", q, p, t, !par)
		case 3: // tweak >= n: t0 + n with the output key of t0
			t0 := new(big.Int).SetBytes(w.rng.Bytes(16))
			Q0, _ := refec.TaprootOutputKey(p, b32(t0))
			w.tweak("t+n", b32(Q0.X), p, b32(new(big.Int).Add(t0, N)), Q0.Y.Bit(0) == 1)
		case 4: // tweak edge values
			ev := []*big.Int{big.NewInt(0), big.NewInt(1), new(big.Int).Sub(N, big.NewInt(1)), N, new(big.Int).Sub(refec.Two256, big.NewInt(1))}
			tv := ev[w.rng.Intn(len(ev))]
			tr := new(big.Int).Mod(tv, N)
			Qe := refec.Add(Pp, refec.ScalarBaseMult(tr))
			if Qe.Inf {
				continue
			}
			w.tweak("t=edge", b32(Qe.X), p, b32(tv), Qe.Y.Bit(0) == 1)
		case 5: // internal key x+p for small liftable x
			pt := sx[w.rng.Intn(len(sx))] // even Y by construction
			tt := refec.TapTweakHash(plusP(pt.X), root)
			Qs := refec.Add(pt, refec.ScalarBaseMult(refec.FromBytes(tt)))
			w.tweak("internal-x+p", b32(Qs.X), plusP(pt.X), tt, Qs.Y.Bit(0) == 1)
		case 6: // same small-x internal key, canonical bytes (control: must be accepted)
			pt := sx[w.rng.Intn(len(sx))]
			tt := refec.TapTweakHash(b32(pt.X), root)
			Qs := refec.Add(pt, refec.ScalarBaseMult(refec.FromBytes(tt)))
			w.tweak("internal-small-x", b32(Qs.X), b32(pt.X), tt, Qs.Y.Bit(0) == 1)
		case 7: // internal key not liftable, output key computed with gocoin's own ECPublicTweakAdd
			x := b32(nonResidueX(w.rng))
			tt := refec.TapTweakHash(x, root)
			qq, pp, ok := gocoinTweakAdd(x, tt)
			if !ok {
				w.run.Inc("algebraic_construction_failed")
				continue
			}
			w.tweak("internal-not-liftable/algebraic", qq, x, tt, pp)
		case 8: // internal key not liftable, honest-looking output key
			w.tweak("internal-not-liftable/random-q", q, b32(nonResidueX(w.rng)), t, par)
		case 9: // P + tG = infinity: t = n - d
			tt := b32(new(big.Int).Sub(N, d))
			w.tweak("Q=infinity", w.rng.Bytes(32), p, tt, w.rng.Bool())
		case 10: // output key x+p where the real output key has a small x: Q small, P = Q - tG
			Qs := sx[w.rng.Intn(len(sx))]
			if w.rng.Bool() {
				Qs = Qs.Neg()
			}
			tt := w.scalar()
			Pi := refec.Add(Qs, refec.ScalarBaseMult(tt).Neg())
			if Pi.Inf || Pi.Y.Bit(0) == 1 {
				continue
			}
			if w.rng.Bool() {
				w.tweak("output-small-x", b32(Qs.X), b32(Pi.X), b32(tt), Qs.Y.Bit(0) == 1)
			} else {
				w.tweak("output-x+p", plusP(Qs.X), b32(Pi.X), b32(tt), Qs.Y.Bit(0) == 1)
			}
		case 11: // internal key given with odd-Y lift (negated P): Q' = -P + tG differs
			Qn := refec.Add(Pp.Neg(), refec.ScalarBaseMult(refec.FromBytes(t)))
			if Qn.Inf {
				continue
			}
			w.tweak("output-of-negated-internal", b32(Qn.X), p, t, Qn.Y.Bit(0) == 1)
		default: // random garbage in one field
			switch w.rng.Intn(3) {
			case 0:
				w.tweak("random-q", w.rng.Bytes(32), p, t, par)
			case 1:
				w.tweak("random-p", q, w.rng.Bytes(32), t, par)
			case 2:
				w.tweak("random-t", q, p, w.rng.Bytes(32), par)
			}
		}
	}
}

func gocoinTweakAdd(x, t []byte) (q []byte, parity bool, ok bool) {
	defer func() {
		if recover() != nil {
			ok = false
		}
	}()
	var pk secp256k1.XY
	pk.ParseXOnlyPubkey(x)
	var tw secp256k1.Number
	tw.SetBytes(t)
	if !pk.ECPublicTweakAdd(&tw) {
		return nil, false, false
	}
	pk.X.Normalize()
	pk.Y.Normalize()
	q = make([]byte, 32)
	pk.X.GetB32(q)
	return q, pk.Y.IsOdd(), true
}

func (w *wk) famTweakFlip(n int) {
	for i := 0; i < n; i++ {
		d := w.scalar()
		Pp := refec.ScalarBaseMult(d)
		p := refec.Bytes32(Pp.X)
		t := refec.TapTweakHash(p, w.rng.Bytes(32))
		Q, why := refec.TaprootOutputKey(p, t)
		if why != "" {
			continue
		}
		q, par := refec.Bytes32(Q.X), Q.Y.Bit(0) == 1
		w.tweak("unmutated", q, p, t, par)
		parts := [][]byte{q, p, t}
		for pi, part := range parts {
			for bit := 0; bit < len(part)*8; bit++ {
				m := [][]byte{append([]byte(nil), q...), append([]byte(nil), p...), append([]byte(nil), t...)}
				m[pi][bit/8] ^= 1 << uint(bit%8)
				w.tweak("flip-"+[]string{"q", "p", "t"}[pi], m[0], m[1], m[2], par)
			}
		}
	}
}

// ---------------------------------------------------------------------------------------------
// signers

func (w *wk) signerKey() *big.Int {
	switch w.rng.Intn(10) {
	case 0:
		return big.NewInt(1)
	case 1:
		return new(big.Int).Sub(N, big.NewInt(1))
	case 2:
		return big.NewInt(int64(2 + w.rng.Intn(5)))
	case 3:
		return new(big.Int).Sub(N, big.NewInt(int64(2+w.rng.Intn(5))))
	}
	return w.scalar()
}

func (w *wk) sigFail(class, what string, wit map[string]interface{}) {
	w.run.Inc("disagree/" + class)
	w.run.Violation(class, what, wit)
}

// checks common to every ECDSA signature the library produced
func (w *wk) checkOwnECDSA(mode string, d *big.Int, msg []byte, r, s *big.Int, wit map[string]interface{}) (recid int, ok bool) {
	pub := refec.ScalarBaseMult(d)
	wit["r"], wit["s"] = hx(r.Bytes()), hx(s.Bytes())
	if good, why := refec.ECDSAVerifyPoint(pub, r, s, msg); !good {
		w.sigFail("sign-"+mode+"/reference-rejects-own-signature/"+why, "signature produced by the library is rejected by the reference: "+why, wit)
		return 0, false
	}
	if s.Cmp(refec.HalfN) > 0 {
		w.sigFail("sign-"+mode+"/high-s", "signature produced by the library has s > n/2", wit)
	}
	// canonical DER through the library's serializer
	var bs btc.Signature
	bs.R.Set(r)
	bs.S.Set(s)
	bs.HashType = 1
	ser := bs.Bytes()
	wit["der"] = hx(ser)
	if len(ser) < 1 || ser[len(ser)-1] != 1 || !refec.IsStrictDER(ser[:len(ser)-1]) || !bytes.Equal(ser[:len(ser)-1], refec.EncodeDER(r, s)) {
		w.sigFail("sign-"+mode+"/der-not-canonical", "Signature.Bytes() is not the canonical DER encoding of (r,s) plus hash type", wit)
	} else {
		// the library's own verifier must accept it, in every key encoding
		encs := keyEncodings(pub)
		for _, name := range encNames {
			if got, pan := callEcdsa(encs[name], ser, msg); pan != nil || !got {
				w.sigFail("sign-"+mode+"/own-verifier-rejects/"+name, "btc.EcdsaVerify rejects the library's own signature", wit)
			}
		}
	}
	// recovery: the reference finds which recid recovers the signer key; gocoin must return the same key for it
	found := -1
	for id := 0; id < 4; id++ {
		if q, good := refec.ECDSARecover(r, s, msg, id); good && q.Equal(pub) {
			found = id
			break
		}
	}
	if found < 0 {
		w.run.Inconclusive("reference recovery found no recid for a signature it verified (%v)", wit)
		return 0, false
	}
	var key *btc.PublicKey
	func() {
		defer func() {
			if x := recover(); x != nil {
				wit["panic"] = fmt.Sprint(x)
			}
		}()
		key = bs.RecoverPublicKey(msg, found)
	}()
	if key == nil {
		w.sigFail("sign-"+mode+"/recovery-fails", fmt.Sprintf("RecoverPublicKey(recid=%d) returns nil for the library's own signature", found), wit)
	} else {
		out := make([]byte, 65)
		key.GetPublicKey(out)
		if key.Infinity || !bytes.Equal(out, pub.SerializeUncompressed()) {
			wit["recovered"] = hx(out)
			w.sigFail("sign-"+mode+"/recovery-wrong-key", fmt.Sprintf("RecoverPublicKey(recid=%d) != signer key", found), wit)
		}
	}
	// the other three recovery ids (a verifier of a signed message takes the id from a header byte that anybody can set):
	// same answer as the reference - another key, or none
	for id := 0; id < 4; id++ {
		if id == found {
			continue
		}
		var k2 *btc.PublicKey
		pan := ""
		func() {
			defer func() {
				if x := recover(); x != nil {
					pan = fmt.Sprint(x)
				}
			}()
			k2 = bs.RecoverPublicKey(msg, id)
		}()
		q, good := refec.ECDSARecover(r, s, msg, id)
		got := ""
		if k2 != nil && !k2.Infinity {
			out := make([]byte, 65)
			k2.GetPublicKey(out)
			got = hx(out)
		}
		want := ""
		if good {
			want = hx(q.SerializeUncompressed())
		}
		if pan != "" || got != want {
			wit["recid"], wit["recovered"], wit["reference"], wit["panic"] = id, got, want, pan
			w.sigFail("sign-"+mode+"/recovery-other-recid", fmt.Sprintf("RecoverPublicKey(recid=%d) differs from the reference", id), wit)
		}
		w.run.Inc("recoveries_with_other_recids")
	}
	w.run.Distinct("recids_seen", found)
	return found, true
}

func (w *wk) famSignRFC6979(n int) {
	btc.EcdsaSignWithRFC6979 = true
	for i := 0; i < n; i++ {
		d := w.signerKey()
		msg := w.message()
		w.note("sign-rfc6979", hx(refec.Bytes32(d)), hx(msg))
		wit := map[string]interface{}{"mode": "rfc6979", "seckey": hx(refec.Bytes32(d)), "msg": hx(msg)}
		r, s, err := signRecover(refec.Bytes32(d), msg)
		w.run.Inc("cases/sign-rfc6979")
		w.run.Inc("evaluations")
		w.run.Distinct("cases", "sign-rfc6979", wit["seckey"], wit["msg"])
		if err != "" {
			wit["error"] = err
			w.sigFail("sign-rfc6979/signer-fails", "btc.EcdsaSign failed: "+err, wit)
			continue
		}
		if _, ok := w.checkOwnECDSA("rfc6979", d, msg, r, s, wit); !ok {
			continue
		}
		er, es, _ := refec.ECDSASignRFC6979(d, msg, true)
		if er.Cmp(r) != 0 || es.Cmp(s) != 0 {
			wit["rfc6979_r"], wit["rfc6979_s"] = hx(er.Bytes()), hx(es.Bytes())
			lr, ls, _ := refec.ECDSASignRFC6979(d, msg, false)
			if lr.Cmp(r) == 0 && ls.Cmp(s) == 0 && refec.FromBytes(msg).Cmp(N) >= 0 {
				w.sigFail("sign-rfc6979/differs-from-rfc6979/digest>=n-not-reduced(bits2octets)", "digest >= n is fed to HMAC_DRBG unreduced (libsecp256k1 convention) while RFC 6979 3.2.d uses bits2octets(h1) = h1 mod n; signature is valid but not the RFC 6979 output", wit)
			} else {
				w.sigFail("sign-rfc6979/differs-from-rfc6979", "deterministic signature differs from the RFC 6979 reference output", wit)
			}
		} else {
			w.run.Inc("sign_rfc6979_equal_reference")
		}
		if refec.FromBytes(msg).Cmp(N) >= 0 {
			w.run.Inc("sign_rfc6979_digest>=n")
		}
	}
	btc.EcdsaSignWithRFC6979 = false
}

func signRecover(priv, msg []byte) (r, s *big.Int, err string) {
	defer func() {
		if x := recover(); x != nil {
			err = fmt.Sprint("panic: ", x)
		}
	}()
	rr, ss, e := btc.EcdsaSign(priv, msg)
	if e != nil {
		return nil, nil, e.Error()
	}
	return new(big.Int).Set(rr), new(big.Int).Set(ss), ""
}

func (w *wk) famSignRandom(n int) {
	btc.EcdsaSignWithRFC6979 = false
	for i := 0; i < n; i++ {
		d := w.signerKey()
		msg := w.message()
		w.note("sign-random", hx(refec.Bytes32(d)), hx(msg))
		wit := map[string]interface{}{"mode": "random-nonce", "seckey": hx(refec.Bytes32(d)), "msg": hx(msg)}
		r, s, err := signRecover(refec.Bytes32(d), msg)
		w.run.Inc("cases/sign-random")
		w.run.Inc("evaluations")
		w.run.Distinct("cases", "sign-random", wit["seckey"], wit["msg"], i)
		if err != "" {
			wit["error"] = err
			w.sigFail("sign-random/signer-fails", "btc.EcdsaSign failed: "+err, wit)
			continue
		}
		w.checkOwnECDSA("random", d, msg, r, s, wit)
	}
}

// secp256k1.Signature.Sign with an explicit nonce: r, s and recid must equal the reference
func (w *wk) famSignNonce(n int) {
	for i := 0; i < n; i++ {
		d := w.signerKey()
		msg := w.message()
		k := w.signerKey()
		if i%3 == 0 {
			// the secret key is solved for so that the raw s = k^-1 (m + r d) lands on a boundary of the low-S rule
			// (n/2, just above it, inside (n/2, 2^255), around 2^255, n-1, 1): d = (s0 k - m) / r mod n
			half := new(big.Int).Rsh(N, 1)
			two255 := new(big.Int).Lsh(big.NewInt(1), 255)
			targets := []*big.Int{half, add(half, big.NewInt(1)), add(half, big.NewInt(2)), add(half, big.NewInt(int64(3+w.rng.Intn(5000)))),
				new(big.Int).Rsh(add(half, two255), 1), new(big.Int).Sub(two255, big.NewInt(1)), new(big.Int).Sub(two255, big.NewInt(2)), two255, add(two255, big.NewInt(1)),
				new(big.Int).Sub(N, big.NewInt(1)), new(big.Int).Sub(N, big.NewInt(2)), big.NewInt(1), big.NewInt(2), new(big.Int).Sub(half, big.NewInt(1)),
				add(half, new(big.Int).Rsh(new(big.Int).SetBytes(w.rng.Bytes(16)), 2))}
			s0 := targets[w.rng.Intn(len(targets))]
			rr := new(big.Int).Mod(refec.ScalarBaseMult(k).X, N)
			if rr.Sign() != 0 {
				dd := new(big.Int).Mul(s0, k)
				dd.Sub(dd, new(big.Int).SetBytes(msg))
				dd.Mul(dd, new(big.Int).ModInverse(rr, N))
				dd.Mod(dd, N)
				if dd.Sign() != 0 {
					d = dd
					w.run.Inc("sign_nonce_low_s_boundary_cases")
				}
			}
		}
		w.note("sign-nonce", hx(refec.Bytes32(d)), hx(msg), hx(refec.Bytes32(k)))
		wit := map[string]interface{}{"mode": "explicit-nonce", "seckey": hx(refec.Bytes32(d)), "msg": hx(msg), "nonce": hx(refec.Bytes32(k))}
		w.run.Inc("cases/sign-nonce")
		w.run.Inc("evaluations")
		w.run.Distinct("cases", "sign-nonce", wit["seckey"], wit["msg"], wit["nonce"])
		var sig secp256k1.Signature
		var sec, m, non secp256k1.Number
		sec.Set(d)
		m.SetBytes(msg)
		non.Set(k)
		recid := -1
		res := 0
		func() {
			defer func() {
				if x := recover(); x != nil {
					wit["panic"] = fmt.Sprint(x)
					res = -99
				}
			}()
			res = sig.Sign(&sec, &m, &non, &recid)
		}()
		er, es, erid, ok := refec.ECDSASignWithNonce(d, msg, k, true)
		if !ok {
			if res == 1 {
				w.sigFail("sign-nonce/signs-where-reference-fails", "Sign succeeds where r or s is zero", wit)
			}
			continue
		}
		if res != 1 {
			w.sigFail("sign-nonce/signer-fails", fmt.Sprintf("Signature.Sign returned %d", res), wit)
			continue
		}
		wit["r"], wit["s"], wit["recid"] = hx(sig.R.Bytes()), hx(sig.S.Bytes()), recid
		if sig.R.Cmp(er) != 0 || sig.S.Cmp(es) != 0 {
			wit["ref_r"], wit["ref_s"] = hx(er.Bytes()), hx(es.Bytes())
			w.sigFail("sign-nonce/differs-from-reference", "Signature.Sign(k) differs from SEC1 signing with the same nonce and low-S normalisation", wit)
			continue
		}
		if recid != erid {
			wit["ref_recid"] = erid
			w.sigFail("sign-nonce/recid-differs", "recovery id reported by Sign differs from the reference", wit)
		}
		var pk secp256k1.XY
		if !secp256k1.RecoverPublicKey(sig.R.Bytes(), sig.S.Bytes(), msg, recid, &pk) {
			w.sigFail("sign-nonce/recovery-fails", "RecoverPublicKey with the reported recid fails", wit)
		} else {
			out := make([]byte, 65)
			pk.GetPublicKey(out)
			if !bytes.Equal(out, refec.ScalarBaseMult(d).SerializeUncompressed()) {
				w.sigFail("sign-nonce/recovery-wrong-key", "RecoverPublicKey with the reported recid != signer key", wit)
			}
		}
		w.run.Distinct("recids_seen", recid)
	}
}

func (w *wk) famSignSchnorr(n int) {
	for i := 0; i < n; i++ {
		d := w.signerKey()
		msg := w.message()
		var aux []byte
		switch w.rng.Intn(5) {
		case 0:
			aux = make([]byte, 32)
		case 1:
			aux = bytes.Repeat([]byte{0xff}, 32)
		default:
			aux = w.rng.Bytes(32)
		}
		sk := refec.Bytes32(d)
		w.note("sign-schnorr", hx(sk), hx(msg), hx(aux))
		wit := map[string]interface{}{"mode": "bip340", "seckey": hx(sk), "msg": hx(msg), "aux": hx(aux)}
		w.run.Inc("cases/sign-schnorr")
		w.run.Inc("evaluations")
		w.run.Distinct("cases", "sign-schnorr", wit["seckey"], wit["msg"], wit["aux"])
		var got []byte
		func() {
			defer func() {
				if x := recover(); x != nil {
					wit["panic"] = fmt.Sprint(x)
				}
			}()
			got = secp256k1.SchnorrSign(append([]byte(nil), msg...), append([]byte(nil), sk...), append([]byte(nil), aux...))
		}()
		exp, err := refec.SchnorrSign(sk, msg, aux)
		if err != nil {
			continue
		}
		wit["sig"] = hx(got)
		if len(got) != 64 {
			w.sigFail("sign-schnorr/signer-fails", "SchnorrSign returned no signature", wit)
			continue
		}
		pk, _ := refec.XOnlyPubKey(sk)
		if ok, why := refec.SchnorrVerify(pk, msg, got); !ok {
			w.sigFail("sign-schnorr/reference-rejects-own-signature/"+why, "BIP340 signature produced by the library is rejected by the reference", wit)
			continue
		}
		if !bytes.Equal(got, exp) {
			wit["ref_sig"] = hx(exp)
			w.sigFail("sign-schnorr/differs-from-bip340", "signature differs from BIP340 default signing with the same aux", wit)
		}
		if ok, pan := callSchnorr(pk, got, msg); pan != nil || !ok {
			w.sigFail("sign-schnorr/own-verifier-rejects", "btc.SchnorrVerify rejects the library's own signature", wit)
		}
	}
}

// ---------------------------------------------------------------------------------------------

type job struct {
	fam   string
	chunk int
	n     int
}

func worker(args []string) {
	fam := args[0]
	chunk, _ := strconv.Atoi(args[1])
	n, _ := strconv.Atoi(args[2])
	statePath, journalPath := args[3], args[4]
	seed, _ := strconv.ParseInt(os.Getenv("VERIF_SEED"), 10, 64)
	if os.Getenv("VERIF_SEED") == "" {
		seed = 1
	}
	run := vlib.StartChild(ID, seed, os.Getenv("VERIF_TIER"))
	jf, _ := os.OpenFile(journalPath, os.O_CREATE|os.O_RDWR, 0o644)
	w := &wk{run: run, fam: fam, chunk: chunk, journal: jf, rng: run.Rand(fmt.Sprintf("%s/%d", fam, chunk))}
	defer run.ExportState(statePath)
	switch fam {
	case "valid":
		w.famValid(n)
	case "bitflip":
		w.famBitflip(n)
	case "rs-edge":
		w.famRSEdge(n)
	case "key-enc":
		w.famKeyEnc(n)
	case "algebraic":
		w.famAlgebraic(n)
	case "boundary":
		w.famBoundary(n)
	case "schnorr-valid":
		w.famSchnorrValid(n)
	case "schnorr-flip":
		w.famSchnorrFlip(n)
	case "schnorr-edge":
		var rows [][]string
		if chunk == 0 {
			rows = bip340Rows()
		}
		w.famSchnorrEdge(n, rows)
	case "tweak":
		w.famTweak(n)
	case "tweak-flip":
		w.famTweakFlip(n)
	case "sign-rfc6979":
		w.famSignRFC6979(n)
	case "sign-random":
		w.famSignRandom(n)
	case "sign-nonce":
		w.famSignNonce(n)
	case "sign-schnorr":
		w.famSignSchnorr(n)
	default:
		fmt.Println("unknown family", fam)
		os.Exit(4)
	}
}

func bip340Rows() [][]string {
	b, err := os.ReadFile("/repo/lib/test/bip340_test_vectors.csv")
	if err != nil {
		return nil
	}
	var rows [][]string
	for i, line := range strings.Split(strings.TrimSpace(string(b)), "\n") {
		f := strings.Split(strings.TrimSpace(line), ",")
		if i == 0 || len(f) < 7 {
			continue
		}
		rows = append(rows, f)
	}
	return rows
}

func replay(path string) {
	b, err := os.ReadFile(path)
	if err != nil {
		fmt.Println("BROKEN cannot read", path)
		os.Exit(2)
	}
	var doc struct {
		Class   string
		Witness map[string]interface{}
	}
	json.Unmarshal(b, &doc)
	wv := doc.Witness
	str := func(k string) []byte {
		s, _ := wv[k].(string)
		return vlib.UnHex(s)
	}
	fmt.Println("replay class:", doc.Class)
	switch wv["predicate"] {
	case "ecdsa":
		r, s, st := refec.ParseDER(str("sig"), 1)
		exp, why := false, "der-status"
		if st == refec.DEROK {
			exp, why = refec.ECDSAVerify(str("pub"), r, s, str("msg"))
		}
		got, pan := callEcdsa(str("pub"), str("sig"), str("msg"))
		fmt.Printf("reference=%v (%s) gocoin=%v panic=%v\n", exp, why, got, pan)
	case "schnorr":
		exp, why := refec.SchnorrVerify(str("pub"), str("msg"), str("sig"))
		got, pan := callSchnorr(str("pub"), str("sig"), str("msg"))
		fmt.Printf("reference=%v (%s) gocoin=%v panic=%v\n", exp, why, got, pan)
	case "tweak":
		par, _ := wv["parity"].(bool)
		exp, why := refec.TaprootTweakCheck(str("q"), str("p"), str("t"), par)
		got, pan := callTweak(str("q"), str("p"), str("t"), par)
		fmt.Printf("reference=%v (%s) gocoin=%v panic=%v\n", exp, why, got, pan)
	default:
		fmt.Println("signer witnesses are replayed by re-running the check with the same VERIF_SEED; witness:", wv)
	}
}

func main() {
	if len(os.Args) > 1 && os.Args[1] == "worker" {
		worker(os.Args[2:])
		return
	}
	for i, a := range os.Args {
		if a == "--replay" && i+1 < len(os.Args) {
			replay(os.Args[i+1])
			return
		}
	}
	run := vlib.Start(ID, "exploration")
	rep, err := refec.Calibrate("/repo/lib")
	if err != nil {
		fmt.Printf("BROKEN property=%s %v\n", ID, err)
		os.Exit(2)
	}
	run.Extra("reference_calibration", rep)

	var jobs []job
	addJobs := func(fam string, chunks, per int) {
		for c := 0; c < chunks; c++ {
			jobs = append(jobs, job{fam, c, per})
		}
	}
	// predicates: quick ~32 k, thorough ~3 M
	addJobs("bitflip", run.N(10, 300), run.N(1, 1))     // ~1100-1350 cases per triple
	addJobs("schnorr-flip", run.N(3, 100), run.N(1, 1)) // 1025 cases per triple
	addJobs("tweak-flip", run.N(2, 50), run.N(1, 1))    // 769 cases per triple
	addJobs("valid", run.N(4, 64), run.N(400, 5000))
	addJobs("rs-edge", run.N(4, 64), run.N(700, 8000))
	addJobs("key-enc", run.N(4, 64), run.N(600, 8000))
	addJobs("algebraic", run.N(2, 32), run.N(250, 4000))
	addJobs("boundary", run.N(4, 64), run.N(10, 150)) // ~75 constructed cases per iteration
	addJobs("schnorr-valid", run.N(2, 32), run.N(300, 5000))
	addJobs("schnorr-edge", run.N(4, 64), run.N(500, 8000))
	addJobs("tweak", run.N(4, 64), run.N(700, 8000))
	// signers: quick 2 k, thorough 200 k
	addJobs("sign-rfc6979", run.N(4, 64), run.N(150, 800))
	addJobs("sign-random", run.N(4, 64), run.N(125, 800))
	addJobs("sign-nonce", run.N(2, 32), run.N(200, 1600))
	addJobs("sign-schnorr", run.N(4, 64), run.N(125, 800))

	tmp, _ := os.MkdirTemp("", "c03")
	defer os.RemoveAll(tmp)
	vlib.Parallel(len(jobs), 14, func(i int) {
		j := jobs[i]
		sf := fmt.Sprintf("%s/state%d.json", tmp, i)
		jf := fmt.Sprintf("%s/journal%d.txt", tmp, i)
		args := []string{"worker", j.fam, fmt.Sprint(j.chunk), fmt.Sprint(j.n), sf, jf}
		env := []string{fmt.Sprintf("VERIF_SEED=%d", run.Seed), "VERIF_TIER=" + run.Tier, "GOMAXPROCS=2", "GOTRACEBACK=all"}
		res := vlib.RunChild("", args, env, nil, 40*time.Minute)
		imported := run.ImportState(sf)
		if res.TimedOut {
			run.Inconclusive("worker watchdog fired: %v", args[:4])
			return
		}
		if res.ExitCode != 0 || !imported {
			last, _ := os.ReadFile(jf)
			run.Violation("worker-died@"+j.fam, fmt.Sprintf("worker for family %s died (exit %d signal %s)", j.fam, res.ExitCode, res.Signal),
				map[string]interface{}{"args": args[:4], "last_journaled_case": strings.TrimSpace(string(last)), "output_tail": vlib.Tail(res.Out, 3000)})
			return
		}
		run.Inc("workers_ok")
	})
	walletMessages(run, tmp)
	run.Assume("DER inputs whose integer values are ambiguous between strict and lax parsers (negative integers, long-form lengths, trailing bytes beyond one hash-type byte) are executed for crash-freedom only, not judged")
	run.Assume("random-nonce ECDSA signing draws from crypto/rand: those cases are judged by verification/low-S/DER/recovery, not by equality")
	run.Assume("BIP340 accept-side defects (missing s<n, lift checks) cannot be witnessed without breaking the challenge hash; the inputs are offered, disagreement is computationally out of reach")
	run.Finish("each case = one (key, signature, message) / (q, p, t, parity) byte input judged by btc.EcdsaVerify/SchnorrVerify/CheckPayToContract and by refec, or one (secret, message, aux) signed by the library and checked by refec (verify, low-S, canonical DER, RFC6979/BIP340 equality, recovery); distinct_nontrivial = distinct judged inputs",
		"evaluations", "cases", run.N(20000, 1000000))
}

func add(a, b *big.Int) *big.Int { return new(big.Int).Add(a, b) }
