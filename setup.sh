#!/bin/bash
# Run once after a fresh restore, offline: resolves the module graph and warms the build cache.
cd /verif
export GOFLAGS=-mod=mod GOPROXY=off GOSUMDB=off GOTOOLCHAIN=local
mkdir -p bin evidence replays
go build ./lib/... ./ref/... 2>&1 | tail -5
for d in mon/*/; do
  go build -tags verif -o /dev/null ./$d 2>&1 | tail -3
done
echo setup done
