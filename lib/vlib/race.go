package vlib

import (
	"regexp"
	"sort"
	"strings"
)

var reFunc = regexp.MustCompile(`^\s+([A-Za-z0-9_./*()\-\[\]]+)\(`)

// RaceReport is one deduplicated "WARNING: DATA RACE" block.
type RaceReport struct {
	Sig   string // sorted pair of the first gocoin frames of both accesses
	Block string // full text of the first occurrence
	N     int
}

// ParseRaces extracts race reports from Go race-detector output and de-duplicates them by the
// pair of innermost frames that lie in wantPrefix (e.g. "github.com/piotrnar/gocoin/"); frames
// outside that prefix are skipped so runtime/sync wrappers do not split one race into many.
func ParseRaces(out string, wantPrefix string) []RaceReport {
	blocks := strings.Split(out, "WARNING: DATA RACE")
	m := map[string]*RaceReport{}
	for _, b := range blocks[1:] {
		if i := strings.Index(b, "=================="); i >= 0 {
			b = b[:i]
		}
		// sections start with "Write at"/"Read at"/"Previous write at"/"Previous read at"
		var sigs []string
		lines := strings.Split(b, "\n")
		inAccess := false
		found := false
		for _, l := range lines {
			t := strings.TrimSpace(l)
			if strings.HasPrefix(t, "Write at") || strings.HasPrefix(t, "Read at") ||
				strings.HasPrefix(t, "Previous write at") || strings.HasPrefix(t, "Previous read at") ||
				strings.HasPrefix(t, "Atomic") || strings.HasPrefix(t, "Previous atomic") {
				inAccess = true
				found = false
				continue
			}
			if strings.HasPrefix(t, "Goroutine ") {
				inAccess = false
				continue
			}
			if inAccess && !found {
				if mm := reFunc.FindStringSubmatch(l); mm != nil && strings.HasPrefix(mm[1], wantPrefix) {
					sigs = append(sigs, strings.TrimPrefix(mm[1], wantPrefix))
					found = true
				}
			}
		}
		sort.Strings(sigs)
		sig := strings.Join(sigs, " <-> ")
		if sig == "" {
			sig = "(no frame in " + wantPrefix + ")"
		}
		if r, ok := m[sig]; ok {
			r.N++
		} else {
			m[sig] = &RaceReport{Sig: sig, Block: "WARNING: DATA RACE" + b, N: 1}
		}
	}
	var res []RaceReport
	for _, r := range m {
		res = append(res, *r)
	}
	sort.Slice(res, func(i, j int) bool { return res[i].Sig < res[j].Sig })
	return res
}
