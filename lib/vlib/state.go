package vlib

import (
	"encoding/hex"
	"encoding/json"
	"os"
)

// Child-side recording: a worker process creates its Run with StartChild, uses the same API
// (Count/Distinct/Sample/Violation/Inconclusive) and calls ExportState at the end (and after every
// violation, so that a later crash does not lose it). The parent merges with ImportState.

type pendingViolation struct {
	Class   string      `json:"class"`
	What    string      `json:"what"`
	Witness interface{} `json:"witness"`
}

type exportState struct {
	Counts     map[string]int64       `json:"counts"`
	Distinct   map[string][]string    `json:"distinct"`
	Samples    []interface{}          `json:"samples"`
	Violations []pendingViolation     `json:"violations"`
	Inconcl    []string               `json:"inconclusive"`
	Extra      map[string]interface{} `json:"extra"`
}

// StartChild creates a recording Run for a worker process: Violation does not print or write
// replay files, it is queued for the parent.
func StartChild(id string, seed int64, tier string) *Run {
	r := &Run{ID: id, Level: "", Tier: tier, Seed: seed,
		counts: map[string]int64{}, distinct: map[string]map[[8]byte]struct{}{},
		maxSamples: 6, knownSeen: map[string]int{}, extra: map[string]interface{}{},
		vioClasses: map[string]int{}, child: true}
	return r
}

func (r *Run) ExportState(path string) {
	r.mu.Lock()
	st := exportState{Counts: r.counts, Distinct: map[string][]string{}, Samples: r.samples, Violations: r.pending, Inconcl: r.inconcl, Extra: r.extra}
	for k, m := range r.distinct {
		l := make([]string, 0, len(m))
		for e := range m {
			l = append(l, hex.EncodeToString(e[:]))
		}
		st.Distinct[k] = l
	}
	b, _ := json.Marshal(&st)
	r.mu.Unlock()
	os.WriteFile(path+".tmp", b, 0o644)
	os.Rename(path+".tmp", path)
}

// ImportState merges a worker's state; returns false when the file is missing/unreadable.
func (r *Run) ImportState(path string) bool {
	b, err := os.ReadFile(path)
	if err != nil {
		return false
	}
	var st exportState
	if json.Unmarshal(b, &st) != nil {
		return false
	}
	r.mu.Lock()
	for k, v := range st.Counts {
		r.counts[k] += v
	}
	for k, l := range st.Distinct {
		m := r.distinct[k]
		if m == nil {
			m = map[[8]byte]struct{}{}
			r.distinct[k] = m
		}
		for _, e := range l {
			var key [8]byte
			d, _ := hex.DecodeString(e)
			copy(key[:], d)
			m[key] = struct{}{}
		}
	}
	for _, s := range st.Samples {
		if len(r.samples) < r.maxSamples {
			r.samples = append(r.samples, s)
		}
	}
	for k, v := range st.Extra {
		r.extra[k] = v
	}
	r.mu.Unlock()
	for _, s := range st.Inconcl {
		r.Inconclusive("%s", s)
	}
	for _, v := range st.Violations {
		r.Violation(v.Class, v.What, v.Witness)
	}
	return true
}

// KnownClasses lists the classes of this property recorded as known (unrepaired) findings.
func (r *Run) KnownClasses() []string {
	var l []string
	for _, k := range r.known {
		if k.Property == r.ID && k.Status == "known" {
			l = append(l, k.Class)
		}
	}
	return l
}
