package vlib

import (
	"bytes"
	"context"
	"os"
	"os/exec"
	"syscall"
	"time"
)

// ChildResult is what the parent learns about a worker process.
type ChildResult struct {
	Out      []byte // combined stdout+stderr
	ExitCode int    // -1 when killed by signal
	Signal   string
	TimedOut bool
	Wall     time.Duration
}

// RunChild re-executes the current binary (or `bin` when non-empty) with args and extra env,
// under a generous wall-clock watchdog. Firing of the watchdog is reported (TimedOut) and is
// to be treated as inconclusive by callers, never as a verdict.
func RunChild(bin string, args []string, env []string, stdin []byte, watchdog time.Duration) ChildResult {
	if bin == "" {
		bin, _ = os.Executable()
	}
	ctx, cancel := context.WithTimeout(context.Background(), watchdog)
	defer cancel()
	cmd := exec.CommandContext(ctx, bin, args...)
	cmd.Env = append(os.Environ(), env...)
	var buf bytes.Buffer
	cmd.Stdout = &buf
	cmd.Stderr = &buf
	if stdin != nil {
		cmd.Stdin = bytes.NewReader(stdin)
	}
	t0 := time.Now()
	err := cmd.Run()
	res := ChildResult{Out: buf.Bytes(), Wall: time.Since(t0)}
	if ctx.Err() == context.DeadlineExceeded {
		res.TimedOut = true
	}
	if err != nil {
		if ee, ok := err.(*exec.ExitError); ok {
			if ws, ok := ee.Sys().(syscall.WaitStatus); ok && ws.Signaled() {
				res.ExitCode = -1
				res.Signal = ws.Signal().String()
			} else {
				res.ExitCode = ee.ExitCode()
			}
		} else {
			res.ExitCode = -2
			res.Out = append(res.Out, []byte("\nexec error: "+err.Error())...)
		}
	}
	return res
}

// Tail returns the last n bytes of b as string.
func Tail(b []byte, n int) string {
	if len(b) > n {
		b = b[len(b)-n:]
	}
	return string(b)
}

// Parallel runs f(i) for i in [0,n) on `workers` goroutines.
func Parallel(n, workers int, f func(i int)) {
	if workers < 1 {
		workers = 1
	}
	ch := make(chan int)
	done := make(chan struct{})
	for w := 0; w < workers; w++ {
		go func() {
			for i := range ch {
				f(i)
			}
			done <- struct{}{}
		}()
	}
	for i := 0; i < n; i++ {
		ch <- i
	}
	close(ch)
	for w := 0; w < workers; w++ {
		<-done
	}
}
