// Package vlib is the shared runtime of every monitor in /verif: seeded PRNG, evidence
// writer, violation / known-finding reporting and replay files.
package vlib

import (
	"crypto/sha256"
	"encoding/hex"
	"encoding/json"
	"fmt"
	"os"
	"path/filepath"
	"sort"
	"strconv"
	"strings"
	"sync"
	"time"
)

// Root is the framework directory (evidence/, replays/, known findings). ./check exports VERIF_ROOT so that
// a background run from a snapshot (vp run) writes into the snapshot, not into /verif.
var Root = func() string {
	if r := os.Getenv("VERIF_ROOT"); r != "" {
		return r
	}
	return "/verif"
}()

// ---------------------------------------------------------------------------------------------
// PRNG: SplitMix64. Deterministic, independent of math/rand versions.

type Rand struct {
	s     uint64
	Drawn uint64
}

func NewRand(seed uint64) *Rand { return &Rand{s: seed*0x9E3779B97F4A7C15 + 0x1234567} }

// Fork derives an independent stream identified by a label.
func (r *Rand) Fork(label string) *Rand {
	h := sha256.Sum256([]byte(fmt.Sprintf("%d/%s", r.s, label)))
	var s uint64
	for i := 0; i < 8; i++ {
		s = s<<8 | uint64(h[i])
	}
	return &Rand{s: s}
}

func (r *Rand) U64() uint64 {
	r.Drawn++
	r.s += 0x9E3779B97F4A7C15
	z := r.s
	z = (z ^ (z >> 30)) * 0xBF58476D1CE4E5B9
	z = (z ^ (z >> 27)) * 0x94D049BB133111EB
	return z ^ (z >> 31)
}
func (r *Rand) U32() uint32 { return uint32(r.U64() >> 32) }
func (r *Rand) Intn(n int) int {
	if n <= 0 {
		return 0
	}
	return int(r.U64() % uint64(n))
}
func (r *Rand) Range(lo, hi int) int { return lo + r.Intn(hi-lo+1) } // inclusive
func (r *Rand) Bool() bool           { return r.U64()&1 == 1 }
func (r *Rand) Chance(num, den int) bool {
	return r.Intn(den) < num
}
func (r *Rand) Bytes(n int) []byte {
	b := make([]byte, n)
	r.Fill(b)
	return b
}
func (r *Rand) Fill(b []byte) {
	for i := 0; i < len(b); {
		v := r.U64()
		for j := 0; j < 8 && i < len(b); j++ {
			b[i] = byte(v)
			v >>= 8
			i++
		}
	}
}
func (r *Rand) Pick(n int) int { return r.Intn(n) }
func (r *Rand) Perm(n int) []int {
	p := make([]int, n)
	for i := range p {
		p[i] = i
	}
	for i := n - 1; i > 0; i-- {
		j := r.Intn(i + 1)
		p[i], p[j] = p[j], p[i]
	}
	return p
}

// ---------------------------------------------------------------------------------------------
// Known findings

type KnownFinding struct {
	Property string `json:"property"`
	Class    string `json:"class"` // exact class string, or prefix when it ends with '*'
	What     string `json:"what"`
	Status   string `json:"status"` // "known" or "fixed"
	Commit   string `json:"commit,omitempty"`
}

type knownFile struct {
	Findings []KnownFinding `json:"findings"`
}

func loadKnown() []KnownFinding {
	var res []KnownFinding
	files := []string{filepath.Join(Root, "known_findings.json")}
	more, _ := filepath.Glob(filepath.Join(Root, "known", "*.json"))
	files = append(files, more...)
	for _, f := range files {
		b, err := os.ReadFile(f)
		if err != nil {
			continue
		}
		var kf knownFile
		if json.Unmarshal(b, &kf) != nil {
			fmt.Printf("BROKEN: cannot parse %s\n", f)
			os.Exit(2)
		}
		res = append(res, kf.Findings...)
	}
	return res
}

// ---------------------------------------------------------------------------------------------
// Run: one execution of one check

type Run struct {
	ID    string
	Tier  string
	Seed  int64
	Level string

	mu         sync.Mutex
	start      time.Time
	counts     map[string]int64
	distinct   map[string]map[[8]byte]struct{}
	samples    []interface{}
	maxSamples int
	violations int
	knownSeen  map[string]int
	inconcl    []string
	known      []KnownFinding
	assume     []string
	extra      map[string]interface{}
	vioClasses map[string]int
	child      bool
	pending    []pendingViolation
}

// Start reads tier from argv[1] (or VERIF_TIER) and seed from VERIF_SEED.
func Start(id, level string) *Run {
	r := &Run{ID: id, Level: level, Tier: "quick", Seed: 1, start: time.Now(),
		counts: map[string]int64{}, distinct: map[string]map[[8]byte]struct{}{},
		maxSamples: 12, knownSeen: map[string]int{}, extra: map[string]interface{}{},
		vioClasses: map[string]int{}}
	if t := os.Getenv("VERIF_TIER"); t == "quick" || t == "thorough" {
		r.Tier = t
	}
	for _, a := range os.Args[1:] {
		if a == "quick" || a == "thorough" {
			r.Tier = a
		}
	}
	if s := os.Getenv("VERIF_SEED"); s != "" {
		if v, err := strconv.ParseInt(s, 10, 64); err == nil {
			r.Seed = v
		}
	}
	switch level {
	case "exploration", "fault_enumeration", "model_checking", "proof", "translation_validation", "other":
	default:
		// differential testing against a reference model etc. are all "exploration" in the evidence schema
		r.Level = "exploration"
	}
	r.known = loadKnown()
	return r
}

func (r *Run) Thorough() bool { return r.Tier == "thorough" }

// N picks the case budget by tier.
func (r *Run) N(quick, thorough int) int {
	if r.Thorough() {
		return thorough
	}
	return quick
}

func (r *Run) Rand(label string) *Rand {
	return NewRand(uint64(r.Seed)).Fork(r.ID + "/" + label)
}

func (r *Run) Count(key string, n int64) {
	r.mu.Lock()
	r.counts[key] += n
	r.mu.Unlock()
}
func (r *Run) Inc(key string) { r.Count(key, 1) }
func (r *Run) Get(key string) int64 {
	r.mu.Lock()
	defer r.mu.Unlock()
	return r.counts[key]
}

// Distinct records one element of a named set of distinct observations.
func (r *Run) Distinct(set string, elem ...interface{}) {
	h := sha256.Sum256([]byte(fmt.Sprint(elem...)))
	var k [8]byte
	copy(k[:], h[:8])
	r.mu.Lock()
	m := r.distinct[set]
	if m == nil {
		m = map[[8]byte]struct{}{}
		r.distinct[set] = m
	}
	m[k] = struct{}{}
	r.mu.Unlock()
}
func (r *Run) DistinctBytes(set string, b []byte) {
	h := sha256.Sum256(b)
	var k [8]byte
	copy(k[:], h[:8])
	r.mu.Lock()
	m := r.distinct[set]
	if m == nil {
		m = map[[8]byte]struct{}{}
		r.distinct[set] = m
	}
	m[k] = struct{}{}
	r.mu.Unlock()
}
func (r *Run) DistinctN(set string) int {
	r.mu.Lock()
	defer r.mu.Unlock()
	return len(r.distinct[set])
}

func (r *Run) Sample(v interface{}) {
	r.mu.Lock()
	if len(r.samples) < r.maxSamples {
		r.samples = append(r.samples, v)
	}
	r.mu.Unlock()
}

// SampleEvery keeps a sample only for the first few and then sparsely.
func (r *Run) WantSample() bool {
	r.mu.Lock()
	defer r.mu.Unlock()
	return len(r.samples) < r.maxSamples
}

func (r *Run) Assume(s string)                 { r.assume = append(r.assume, s) }
func (r *Run) Extra(key string, v interface{}) { r.mu.Lock(); r.extra[key] = v; r.mu.Unlock() }
func (r *Run) Inconclusive(format string, a ...interface{}) {
	s := fmt.Sprintf(format, a...)
	r.mu.Lock()
	r.inconcl = append(r.inconcl, s)
	n := len(r.inconcl)
	r.mu.Unlock()
	if n <= 20 {
		fmt.Printf("INCONCLUSIVE property=%s %s\n", r.ID, s)
	}
}

// Violation reports a violation of class `class` (a stable, specific identifier of WHAT fails:
// direction of disagreement + reason + generator family). If the class is listed in
// known_findings.json with status "known" a KNOWN-FINDING line is printed instead (once per class).
// replay is any JSON-serialisable witness.
func (r *Run) Violation(class, what string, replay interface{}) {
	r.mu.Lock()
	defer r.mu.Unlock()
	if sfx := os.Getenv("VERIF_CLASS_SUFFIX"); sfx != "" && r.child { // e.g. "@386" for a worker built for another GOARCH
		class += sfx
		what = "[" + strings.TrimPrefix(sfx, "@") + "] " + what
	}
	if r.child {
		r.violations++
		r.vioClasses[class]++
		if r.vioClasses[class] <= 3 {
			r.pending = append(r.pending, pendingViolation{class, what, replay})
		}
		return
	}
	for _, k := range r.known {
		if k.Property != r.ID || k.Status != "known" {
			continue
		}
		if k.Class == class || (strings.HasSuffix(k.Class, "*") && strings.HasPrefix(class, strings.TrimSuffix(k.Class, "*"))) {
			if r.knownSeen[k.Class] == 0 {
				fmt.Printf("KNOWN-FINDING: property=%s %s [class=%s]\n", r.ID, k.What, k.Class)
			}
			r.knownSeen[k.Class]++
			return
		}
	}
	r.violations++
	r.vioClasses[class]++
	if r.vioClasses[class] > 3 { // do not flood: 3 witnesses per class
		return
	}
	dir := filepath.Join(Root, "replays", r.ID)
	os.MkdirAll(dir, 0o755)
	path := filepath.Join(dir, fmt.Sprintf("%s-seed%d-%d.json", sanitize(class), r.Seed, r.vioClasses[class]))
	doc := map[string]interface{}{"property": r.ID, "class": class, "what": what, "seed": r.Seed,
		"tier": r.Tier, "witness": replay}
	b, _ := json.MarshalIndent(doc, "", " ")
	os.WriteFile(path, b, 0o644)
	fmt.Printf("VIOLATION property=%s replay=%s\n", r.ID, path)
	fmt.Printf("  class=%s: %s\n", class, what)
}

func (r *Run) Violations() int {
	r.mu.Lock()
	defer r.mu.Unlock()
	return r.violations
}

func sanitize(s string) string {
	var b strings.Builder
	for _, c := range s {
		if (c >= 'a' && c <= 'z') || (c >= 'A' && c <= 'Z') || (c >= '0' && c <= '9') || c == '-' || c == '_' || c == '.' {
			b.WriteRune(c)
		} else {
			b.WriteByte('_')
		}
	}
	if b.Len() > 80 {
		return b.String()[:80]
	}
	return b.String()
}

// Finish writes the evidence file and exits. evalKey / distinctSet name the counter and the
// distinct-set that populate `evaluations` and `distinct_nontrivial`; minDistinct is the smallest
// number of distinct non-trivial cases for which the run counts as having observed something
// (below: exit 2, "nothing observed", never a VIOLATION).
func (r *Run) Finish(rule, evalKey, distinctSet string, minDistinct int) {
	r.mu.Lock()
	cov := map[string]interface{}{}
	for k, v := range r.extra {
		cov[k] = v
	}
	cnt := map[string]int64{}
	for k, v := range r.counts {
		cnt[k] = v
	}
	dis := map[string]int{}
	for k, v := range r.distinct {
		dis[k] = len(v)
	}
	cov["counters"] = cnt
	cov["distinct_sets"] = dis
	cov["evaluations"] = r.counts[evalKey]
	cov["distinct_nontrivial"] = len(r.distinct[distinctSet])
	cov["rule"] = rule
	samples := r.samples
	if len(samples) == 0 {
		samples = []interface{}{"(none)"}
	}
	cov["samples"] = samples
	kf := map[string]int{}
	for k, v := range r.knownSeen {
		kf[k] = v
	}
	// every listed (unrepaired) finding of this property gets its line, also when this run's random
	// workload happened not to reproduce it
	for _, k := range r.known {
		if k.Property == r.ID && k.Status == "known" && r.knownSeen[k.Class] == 0 {
			fmt.Printf("KNOWN-FINDING: property=%s %s [class=%s] (listed; not re-observed in this run)\n", r.ID, k.What, k.Class)
			kf[k.Class] = 0
		}
	}
	cov["known_findings_observed"] = kf
	cov["inconclusive"] = r.inconcl
	if len(r.vioClasses) > 0 {
		cov["violation_classes"] = r.vioClasses
	}
	ev := map[string]interface{}{
		"property_id": r.ID, "tier": r.Tier, "seed": r.Seed, "level": r.Level,
		"coverage": cov, "assumptions": r.assume,
		"wall_s":     time.Since(r.start).Seconds(),
		"violations": r.violations,
	}
	if r.assume == nil {
		ev["assumptions"] = []string{}
	}
	nd := len(r.distinct[distinctSet])
	ne := r.counts[evalKey]
	viol := r.violations
	r.mu.Unlock()

	evdir := filepath.Join(Root, "evidence")
	if d := os.Getenv("VERIF_EVIDENCE_DIR"); d != "" { // trial runs against a scratch checkout (VERIF_REPO) keep evidence/ untouched
		evdir = d
	}
	os.MkdirAll(evdir, 0o755)
	b, _ := json.MarshalIndent(ev, "", " ")
	os.WriteFile(filepath.Join(evdir, r.ID+".json"), b, 0o644)

	keys := make([]string, 0, len(cnt))
	for k := range cnt {
		keys = append(keys, k)
	}
	sort.Strings(keys)
	fmt.Printf("[%s %s seed=%d] evaluations=%d distinct_nontrivial=%d violations=%d wall=%.1fs\n",
		r.ID, r.Tier, r.Seed, ne, nd, viol, time.Since(r.start).Seconds())
	for _, k := range keys {
		fmt.Printf("  %-40s %d\n", k, cnt[k])
	}
	dk := make([]string, 0, len(dis))
	for k := range dis {
		dk = append(dk, k)
	}
	sort.Strings(dk)
	for _, k := range dk {
		fmt.Printf("  distinct(%s) = %d\n", k, dis[k])
	}
	if viol > 0 {
		os.Exit(1)
	}
	if nd < minDistinct || ne == 0 {
		fmt.Printf("BROKEN property=%s observed too little (distinct=%d < %d)\n", r.ID, nd, minDistinct)
		os.Exit(2)
	}
	os.Exit(0)
}

func Hex(b []byte) string { return hex.EncodeToString(b) }
func UnHex(s string) []byte {
	b, err := hex.DecodeString(s)
	if err != nil {
		panic(err)
	}
	return b
}
